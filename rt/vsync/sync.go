//go:build go1.23

// Package sync is the drop-in replacement the instrumenter substitutes for the
// standard library's sync package inside the library under test.  Without an
// active scheduler every method delegates to the real primitive.
package sync

import (
	stdsync "sync"
	"unsafe"

	verifrt "github.com/DavidGamba/go-getoptions/verifrt"
)

type Locker = stdsync.Locker

type Mutex struct {
	real stdsync.Mutex
}

func (m *Mutex) key() uintptr { return uintptr(unsafe.Pointer(m)) }

func (m *Mutex) Lock() {
	if verifrt.Controlled() {
		verifrt.MutexLock(m.key())
		return
	}
	m.real.Lock()
}

func (m *Mutex) TryLock() bool {
	if verifrt.Controlled() {
		return verifrt.MutexTryLock(m.key())
	}
	return m.real.TryLock()
}

func (m *Mutex) Unlock() {
	if verifrt.Controlled() {
		verifrt.MutexUnlock(m.key())
		return
	}
	m.real.Unlock()
}

type RWMutex struct {
	real stdsync.RWMutex
}

func (m *RWMutex) key() uintptr { return uintptr(unsafe.Pointer(m)) }

func (m *RWMutex) Lock() {
	if verifrt.Controlled() {
		verifrt.MutexLock(m.key())
		return
	}
	m.real.Lock()
}

func (m *RWMutex) Unlock() {
	if verifrt.Controlled() {
		verifrt.MutexUnlock(m.key())
		return
	}
	m.real.Unlock()
}

func (m *RWMutex) RLock() {
	if verifrt.Controlled() {
		verifrt.MutexRLock(m.key())
		return
	}
	m.real.RLock()
}

func (m *RWMutex) RUnlock() {
	if verifrt.Controlled() {
		verifrt.MutexRUnlock(m.key())
		return
	}
	m.real.RUnlock()
}

type WaitGroup struct {
	real stdsync.WaitGroup
}

func (w *WaitGroup) key() uintptr { return uintptr(unsafe.Pointer(w)) }

func (w *WaitGroup) Add(n int) {
	if verifrt.Controlled() {
		verifrt.WGAdd(w.key(), n)
		return
	}
	w.real.Add(n)
}

func (w *WaitGroup) Done() { w.Add(-1) }

func (w *WaitGroup) Wait() {
	if verifrt.Controlled() {
		verifrt.WGWait(w.key())
		return
	}
	w.real.Wait()
}

type Once struct {
	m    Mutex
	done bool
}

func (o *Once) Do(f func()) {
	o.m.Lock()
	defer o.m.Unlock()
	if !o.done {
		o.done = true
		f()
	}
}
