//go:build go1.23

// Package verifrt is the runtime behind the instrumented copy of go-getoptions.
//
// It is compiled into the library's module as the virtual package
// github.com/DavidGamba/go-getoptions/verifrt through `go build -overlay`
// (nothing is written to the repository).  Two modes:
//
//   - passthrough (no scheduler, no orderer): every shim delegates to the real
//     Go primitive; used to run the repository's own tests on the instrumented
//     sources;
//   - controlled: a cooperative scheduler owns thread interleaving, channel
//     and mutex semantics, sleeping and map iteration order; every source of
//     nondeterminism becomes a numbered choice the explorer decides.
package verifrt

import (
	"fmt"
	"iter"
	"reflect"
	"runtime/debug"
	"sort"
	"time"
)

// ---------------------------------------------------------------------------
// choices

// Choice classes.
const (
	ClassSched = 0 // thread scheduling decision, counted against the schedule budget k
	ClassOrder = 1 // map iteration order decision, counted against the order budget d
	ClassFree  = 2 // environment decision, never budgeted
)

// Cand describes one enabled thread at a scheduling point (partial-order reduction).
type Cand struct {
	Thread int   // thread id
	Objs   []int // ids of the modelled objects its pending operation touches (0 = the harness object)
	Reads  bool  // the operation only reads them
}

// ThreadChooser is implemented by choosers that pick the next thread themselves from the
// footprints of the pending operations (sleep-set exploration).  Returning -1 prunes the execution.
type ThreadChooser interface {
	ChooseThread(cands []Cand) int
}

// StateChooser is implemented by choosers that want, at every scheduling point, a key of the global state reached
// (visited-state pruning).  The key is a hash of the Mazurkiewicz trace executed so far: per thread, the sequence of
// its operations with the identity and version of every modelled object each one touched, and every explicit choice
// it took.  Two executions with the same key have executed the same partial order of operations and are in the same
// state (same assumption as for sleep sets: operations on different objects commute).  Returning -1 prunes.
type StateChooser interface {
	ChooseThreadState(cands []Cand, key [2]uint64) int
}

// StatusPruned marks an execution cut off by the sleep-set reduction (it is a prefix of an
// equivalent execution explored elsewhere).
const StatusPruned = "pruned"

// Chooser decides every nondeterministic choice.  n >= 2 always.
type Chooser interface {
	Choose(class int, n int, what string) int
}

// ---------------------------------------------------------------------------
// global state

var (
	active  *Sched  // controlled scheduling when non-nil
	orderer Chooser // controlled map order when non-nil (also used without scheduler)

	tickBudget int64
	ticks      int64
)

// TickOverflow is the panic value raised when the loop-iteration budget is exhausted.
type TickOverflow struct{ Ticks int64 }

func (t TickOverflow) Error() string {
	return fmt.Sprintf("tick budget exhausted after %d loop iterations", t.Ticks)
}

// SetOrderer installs (or removes with nil) the map-order chooser used outside a scheduler.
func SetOrderer(c Chooser) { orderer = c }

// SetTickBudget sets the number of loop iterations allowed until ResetTicks; 0 disables counting.
func SetTickBudget(n int64) { tickBudget = n; ticks = 0 }

// ResetTicks restarts the loop iteration counter.
func ResetTicks() { ticks = 0 }

// Ticks returns the loop iterations counted since the last reset.
func Ticks() int64 { return ticks }

// Tick is inserted at the top of every loop body of the library.
func Tick() {
	if tickBudget == 0 {
		return
	}
	ticks++
	if ticks > tickBudget {
		panic(TickOverflow{ticks})
	}
}

// ---------------------------------------------------------------------------
// map iteration

type zeroChooser struct{}

func (zeroChooser) Choose(int, int, string) int { return 0 }

// ZeroChooser always takes the default alternative.
var ZeroChooser Chooser = zeroChooser{}

// RangeMap replaces `range m` for maps.  Passthrough: native order.  Controlled:
// rotation r of the sorted key order, r chosen by the chooser (default 0).
func RangeMap[K comparable, V any](m map[K]V) iter.Seq2[K, V] {
	return func(yield func(K, V) bool) {
		var ch Chooser
		if active != nil {
			ch = active.chooser
		} else {
			ch = orderer
		}
		if ch == nil {
			for k, v := range m {
				if !yield(k, v) {
					return
				}
			}
			return
		}
		keys := sortedKeys(m)
		n := len(keys)
		r := 0
		if n > 1 {
			r = ch.Choose(ClassOrder, n, "range")
		}
		for i := 0; i < n; i++ {
			k := keys[(i+r)%n]
			v, ok := m[k]
			if !ok {
				continue // deleted during iteration
			}
			if !yield(k, v) {
				return
			}
		}
	}
}

func sortedKeys[K comparable, V any](m map[K]V) []K {
	keys := make([]K, 0, len(m))
	for k := range m {
		keys = append(keys, k)
	}
	if ks, ok := any(keys).([]string); ok {
		sort.Strings(ks)
		return keys
	}
	if len(keys) > 0 && reflect.TypeOf(keys[0]).Kind() == reflect.String {
		sort.Slice(keys, func(i, j int) bool {
			return reflect.ValueOf(keys[i]).String() < reflect.ValueOf(keys[j]).String()
		})
		return keys
	}
	sort.Slice(keys, func(i, j int) bool { return fmt.Sprint(keys[i]) < fmt.Sprint(keys[j]) })
	return keys
}

// ---------------------------------------------------------------------------
// vector clocks

type VC []int32

func (v VC) clone() VC { return append(VC(nil), v...) }

func (v *VC) join(o VC) {
	for len(*v) < len(o) {
		*v = append(*v, 0)
	}
	for i, x := range o {
		if x > (*v)[i] {
			(*v)[i] = x
		}
	}
}

// Leq reports whether v happens-before-or-equals o.
func (v VC) Leq(o VC) bool {
	for i, x := range v {
		if x == 0 {
			continue
		}
		if i >= len(o) || x > o[i] {
			return false
		}
	}
	return true
}

// ---------------------------------------------------------------------------
// scheduler

// Status of a finished execution.
const (
	StatusOK       = "ok"
	StatusDeadlock = "deadlock"
	StatusLivelock = "livelock"
	StatusHorizon  = "horizon"
	StatusPanic    = "panic"
	StatusDiverged = "diverged"
)

type abortSignal struct{}

// Event is a harness-recorded trace event.
type Event struct {
	Step   int
	Thread int
	Name   string
	Arg    string
	N      int
	VC     VC
}

// Result of one controlled execution.
type Result struct {
	Status  string
	Detail  string
	Steps   int
	Ticks   int64
	Threads int
	Events  []Event
	// MaxEnabled is the largest number of simultaneously enabled threads seen.
	MaxEnabled int
}

type thread struct {
	id      int
	rank    int
	name    string
	wake    chan struct{}
	exited  chan struct{}
	pending *op
	done    bool
	vc      VC
	obs     []obsRec
	mutated bool
	force   bool      // spurious wake-up granted
	hist    [2]uint64 // rolling hash of the operations executed so far (state keys)
	// iterHist is hist as it was when the current polling iteration began (last return from Sleep).  An iteration
	// that only looked and found nothing leaves the thread's local state as it was (the assumption the parking rule
	// already rests on), so it is dropped from the history when the thread goes back to sleep.
	iterHist  [2]uint64
	sawClosed bool // the iteration saw a closed channel (a finding that may change local state): keep it
}

const (
	hashSeedA = 0x9E3779B97F4A7C15
	hashSeedB = 0xC2B2AE3D27D4EB4F
)

func mix64(h, v uint64) uint64 {
	h ^= v + 0x9E3779B97F4A7C15 + (h << 6) + (h >> 2)
	h *= 0xff51afd7ed558ccd
	h ^= h >> 33
	return h
}

func (t *thread) mixv(v uint64) {
	t.hist[0] = mix64(t.hist[0], v)
	t.hist[1] = mix64(t.hist[1]^hashSeedB, v*hashSeedA+1)
}

func (t *thread) mixs(str string) {
	h := uint64(14695981039346656037)
	for i := 0; i < len(str); i++ {
		h ^= uint64(str[i])
		h *= 1099511628211
	}
	t.mixv(h)
}

// mixOp folds an operation that is about to execute into the thread's history.
func (t *thread) mixOp(o *op) {
	if o.sleeper || o.desc == "sleep(yield)" {
		return // where a thread sleeps is implied by what it did before; how often it slept for nothing is not state
	}
	t.mixs(o.desc)
	for _, ob := range o.touch {
		t.mixv(uint64(ob.id)<<32 | 0x1)
		if ob.external {
			if ob.extReady() {
				t.mixv(3)
			} else {
				t.mixv(2)
			}
			continue
		}
		t.mixv(ob.ver)
	}
}

// stateKey combines the histories of all threads.
func (s *Sched) stateKey() [2]uint64 {
	k := [2]uint64{hashSeedA, hashSeedB}
	for _, t := range s.threads {
		d := uint64(0)
		if t.done {
			d = 1
		}
		k[0] = mix64(mix64(mix64(k[0], uint64(t.id)), t.hist[0]), d)
		k[1] = mix64(mix64(mix64(k[1], uint64(t.id)+7), t.hist[1]), d)
	}
	return k
}

type obsRec struct {
	obj *object
	ver uint64
	ext bool // external channel: ver is 0/1 readiness
}

type op struct {
	desc    string
	enabled func() bool
	exec    func()
	sleeper bool
	recvOn  []*object // channels a blocked receive is waiting on (lets a select-send find its partner)
	touch   []*object // footprint: modelled objects the operation reads or writes (partial-order reduction)
	reads   bool      // the footprint is only read
}

type object struct {
	id   int
	kind string
	ver  uint64
	// channel
	ch       reflect.Value
	external bool
	cap      int
	buf      []item
	sendq    []*offer
	closed   bool
	closeVC  VC
	recvVCs  []VC // VC of the i-th receive (buffered channels: k-th receive happens before (k+cap)-th send completes)
	sends    int
	// mutex
	locked  bool
	readers int
	relVC   VC
	// waitgroup
	count int
	// one-shot timer
	armed bool
}

func (o *object) bump() {
	o.ver++
	if active != nil {
		active.changes++
	}
}

type item struct {
	v  any
	vc VC
}

type offer struct {
	t     *thread
	v     any
	vc    VC
	taken bool
	rvc   VC
}

// Sched is one controlled execution.
type Sched struct {
	chooser    Chooser
	threads    []*thread
	cur        *thread
	objs       map[uintptr]*object
	nextObj    int
	steps      int
	maxSteps   int
	events     []Event
	finished   chan struct{}
	aborted    bool
	abortBy    *thread
	status     string
	detail     string
	maxEn      int
	spurious   int          // consecutive spurious wake-ups without progress
	spuriousAt uint64       // value of changes when the current run of spurious wake-ups started
	changes    uint64       // counts state changes of modelled objects, thread starts/ends and events
	hashing    bool         // the chooser wants state keys: operations and choices are folded into per-thread histories
	Trace      func(string) // optional step tracer
}

// Config for Run.
type Config struct {
	Chooser    Chooser
	MaxSteps   int
	TickBudget int64
	Trace      func(string)
}

// Run executes body as thread 0 under the controlled scheduler and returns when every
// thread finished or the execution was aborted (deadlock, livelock, horizon, panic).
func Run(cfg Config, body func()) *Result {
	s := &Sched{
		chooser:  cfg.Chooser,
		objs:     map[uintptr]*object{},
		maxSteps: cfg.MaxSteps,
		finished: make(chan struct{}, 1),
		status:   StatusOK,
		Trace:    cfg.Trace,
	}
	if s.maxSteps == 0 {
		s.maxSteps = 100000
	}
	SetTickBudget(cfg.TickBudget)
	_, s.hashing = cfg.Chooser.(StateChooser)
	harnessObj.ver = 0
	active = s
	t0 := s.newThread("main", 0)
	s.cur = t0
	go s.threadMain(t0, body)
	<-s.finished
	// reap
	if s.aborted {
		if s.abortBy != nil {
			<-s.abortBy.exited
		}
		for i := 0; i < len(s.threads); i++ { // threads may still be appended? no: only the baton holder spawns, and it is gone
			t := s.threads[i]
			select {
			case <-t.exited:
				continue
			default:
			}
			t.wake <- struct{}{}
			<-t.exited
		}
	}
	active = nil
	res := &Result{Status: s.status, Detail: s.detail, Steps: s.steps, Ticks: ticks, Threads: len(s.threads), Events: s.events, MaxEnabled: s.maxEn}
	SetTickBudget(0)
	return res
}

func (s *Sched) newThread(name string, rank int) *thread {
	t := &thread{id: len(s.threads), name: name, wake: make(chan struct{}, 1), exited: make(chan struct{})}
	t.rank = rank
	if rank == 0 {
		t.rank = t.id
	}
	s.threads = append(s.threads, t)
	return t
}

func (s *Sched) threadMain(t *thread, body func()) {
	defer close(t.exited)
	returned := false
	defer func() {
		r := recover()
		if r == nil && !returned && !s.aborted {
			// runtime.Goexit inside the thread (its deferred calls have run, as scheduling points if they
			// contain any): the thread is over, hand the baton on exactly as after a normal return
			s.changes++
			t.done = true
			t.pending = nil
			func() {
				defer func() { _ = recover() }() // an abort raised while handing over must not escape a dying goroutine
				s.dispatch(t)
			}()
			return
		}
		if r != nil {
			if _, ok := r.(abortSignal); ok {
				return
			}
			// genuine panic inside a thread
			if !s.aborted {
				s.aborted = true
				s.abortBy = t
				s.status = StatusPanic
				if to, ok := r.(TickOverflow); ok {
					// a library loop that never ends and never reaches a scheduling point: deterministic text, no stack
					s.detail = fmt.Sprintf("thread %d (%s) spins without ever yielding: %v", t.id, t.name, to)
				} else {
					s.detail = fmt.Sprintf("thread %d (%s): %v\n%s", t.id, t.name, r, debug.Stack())
				}
				s.finished <- struct{}{}
			}
			return
		}
	}()
	if t.id != 0 {
		// wait to be scheduled for the first time
		<-t.wake
		if s.aborted {
			panic(abortSignal{})
		}
	}
	body()
	returned = true
	// thread ends: hand over
	s.changes++
	t.done = true
	t.pending = nil
	s.dispatch(t)
}

func (s *Sched) abort(t *thread, status, detail string) {
	s.aborted = true
	s.abortBy = t
	s.status = status
	s.detail = detail
	s.finished <- struct{}{}
	panic(abortSignal{})
}

// point announces op for the current thread and blocks until it was chosen and executed.
func (s *Sched) point(o *op) {
	if s.aborted {
		panic(abortSignal{})
	}
	t := s.cur
	t.pending = o
	s.dispatch(t)
}

// dispatch picks the next thread, executes its pending op and transfers control.
func (s *Sched) dispatch(self *thread) {
	for {
		var en []*thread
		for _, t := range s.threads {
			if t.done || t.pending == nil {
				continue
			}
			if t.pending.enabled == nil || t.pending.enabled() {
				en = append(en, t)
			}
		}
		if len(en) == 0 {
			alive := 0
			var sleepers []*thread
			for _, t := range s.threads {
				if !t.done {
					alive++
					if t.pending != nil && t.pending.sleeper {
						sleepers = append(sleepers, t)
					}
				}
			}
			if alive == 0 {
				s.finished <- struct{}{}
				return // self is done (only a finished thread can see alive == 0)
			}
			if len(sleepers) > 0 {
				// nothing can change the watched objects any more: wake a sleeper spuriously;
				// if three rounds of that change no modelled object, start no thread and emit no
				// event, the execution is a livelock.
				if s.changes != s.spuriousAt {
					s.spurious = 0
					s.spuriousAt = s.changes
				}
				if s.spurious < 3*len(sleepers) {
					s.spurious++
					sl := sleepers[(s.spurious-1)%len(sleepers)]
					sl.force = true
					continue
				}
			}
			var desc []string
			for _, t := range s.threads {
				if !t.done {
					d := "running"
					if t.pending != nil {
						d = t.pending.desc
					}
					desc = append(desc, fmt.Sprintf("%d(%s):%s", t.id, t.name, d))
				}
			}
			st := StatusDeadlock
			if len(sleepers) > 0 {
				st = StatusLivelock
			}
			s.abortFrom(self, st, fmt.Sprintf("no thread can make progress: %v", desc))
			return
		}
		// canonical order: running thread first if still enabled, then ascending rank
		sort.SliceStable(en, func(i, j int) bool {
			if (en[i] == self) != (en[j] == self) {
				return en[i] == self
			}
			return en[i].rank < en[j].rank
		})
		if len(en) > s.maxEn {
			s.maxEn = len(en)
		}
		idx := 0
		if sc, ok := s.chooser.(StateChooser); ok {
			cands := make([]Cand, len(en))
			for i, t := range en {
				cands[i] = Cand{Thread: t.id}
			}
			idx = sc.ChooseThreadState(cands, s.stateKey())
			if idx < 0 {
				s.abortFrom(self, StatusPruned, "state already visited")
				return
			}
			if idx >= len(en) {
				s.abortFrom(self, StatusDiverged, fmt.Sprintf("thread choice %d out of range %d", idx, len(en)))
				return
			}
		} else if tc, ok := s.chooser.(ThreadChooser); ok {
			cands := make([]Cand, len(en))
			for i, t := range en {
				c := Cand{Thread: t.id, Reads: t.pending.reads}
				for _, o := range t.pending.touch {
					c.Objs = append(c.Objs, o.id)
				}
				cands[i] = c
			}
			idx = tc.ChooseThread(cands)
			if idx < 0 {
				s.abortFrom(self, StatusPruned, "sleep-set blocked")
				return
			}
			if idx >= len(en) {
				s.abortFrom(self, StatusDiverged, fmt.Sprintf("thread choice %d out of range %d", idx, len(en)))
				return
			}
		} else if len(en) > 1 {
			class := ClassSched
			if en[0].rank >= EnvRank {
				class = ClassFree // only environment threads are enabled: which one acts is a free choice
			}
			idx = s.chooser.Choose(class, len(en), "sched")
			if idx < 0 || idx >= len(en) {
				s.abortFrom(self, StatusDiverged, fmt.Sprintf("choice %d out of range %d", idx, len(en)))
				return
			}
		}
		chosen := en[idx]
		s.steps++
		if s.steps > s.maxSteps {
			s.abortFrom(self, StatusHorizon, fmt.Sprintf("more than %d scheduling steps", s.maxSteps))
			return
		}
		o := chosen.pending
		chosen.pending = nil
		chosen.force = false
		s.cur = chosen
		chosen.tick()
		if s.Trace != nil {
			s.Trace(fmt.Sprintf("%4d t%d(%s) %s", s.steps, chosen.id, chosen.name, o.desc))
		}
		if s.hashing {
			chosen.mixOp(o)
			for _, ob := range o.touch {
				if ob == harnessObj {
					harnessObj.ver++ // harness operations are totally ordered in the key
				}
			}
		}
		if o.exec != nil {
			o.exec()
		}
		if chosen == self {
			return
		}
		chosen.wake <- struct{}{}
		if self.done {
			return
		}
		<-self.wake
		if s.aborted {
			panic(abortSignal{})
		}
		return
	}
}

// abortFrom aborts from inside dispatch; a finished thread must not panic through its epilogue.
func (s *Sched) abortFrom(self *thread, status, detail string) {
	if self.done {
		s.aborted = true
		s.abortBy = nil
		s.status = status
		s.detail = detail
		s.finished <- struct{}{}
		return
	}
	s.abort(self, status, detail)
}

func (t *thread) tick() {
	for len(t.vc) <= t.id {
		t.vc = append(t.vc, 0)
	}
	t.vc[t.id]++
}

// EnvRank is the rank from which threads count as environment threads.
const EnvRank = 1000

// ---------------------------------------------------------------------------
// public API for harnesses

// Controlled reports whether a scheduler is active.
func Controlled() bool { return active != nil }

// Go starts f as a new thread (library `go` statements are rewritten to this).
func Go(f func()) {
	s := active
	if s == nil {
		go f()
		return
	}
	s.spawn("go", 0, f)
}

// GoEnv starts an environment thread (rank >= EnvRank: scheduled by default only when nothing else can run).
func GoEnv(name string, rank int, f func()) {
	s := active
	if s == nil {
		go f()
		return
	}
	s.spawn(name, EnvRank+rank, f)
}

func (s *Sched) spawn(name string, rank int, f func()) {
	if s.aborted {
		panic(abortSignal{})
	}
	parent := s.cur
	t := s.newThread(name, rank)
	t.vc = parent.vc.clone()
	if s.hashing {
		parent.mixv(uint64(t.id)<<8 | 0x5)
		t.hist = parent.hist
		t.mixv(0x77)
	}
	parent.mutated = true
	t.pending = &op{desc: "start"}
	s.changes++
	s.events = append(s.events, Event{Step: s.steps, Thread: parent.id, Name: "spawn", N: t.id, VC: parent.vc.clone()})
	go s.threadMain(t, f)
}

// harnessObj stands for all state the harness shares between threads: every harness operation
// (Yield, Block, HarnessPoint) touches it, so the reduction never reorders two of them.
var harnessObj = &object{id: 0, kind: "harness"}

// Yield is a plain scheduling point.
func Yield() {
	s := active
	if s == nil {
		return
	}
	s.cur.mutated = true
	s.point(&op{desc: "yield", touch: []*object{harnessObj}})
}

// HarnessPoint is a scheduling point that announces an access to shared harness state; the code
// following it (up to the thread's next operation) executes atomically with it.
func HarnessPoint(desc string) {
	s := active
	if s == nil {
		return
	}
	s.cur.mutated = true
	s.point(&op{desc: desc, touch: []*object{harnessObj}})
}

// Block parks the current thread until cond() holds (evaluated only by the baton holder).
func Block(desc string, cond func() bool) {
	s := active
	if s == nil {
		panic("verifrt.Block outside controlled mode")
	}
	s.cur.mutated = true
	s.point(&op{desc: desc, enabled: cond, touch: []*object{harnessObj}})
}

// Choose is a free (unbudgeted) environment choice in [0,n).
func Choose(n int, what string) int {
	s := active
	if s == nil || n <= 1 {
		return 0
	}
	k := s.chooser.Choose(ClassFree, n, what)
	if s.hashing {
		s.cur.mixv(uint64(k)<<8 | 0x9)
	}
	return k
}

// Emit records a harness event with the current thread's vector clock.
func Emit(name, arg string, n int) {
	s := active
	if s == nil {
		return
	}
	t := s.cur
	s.changes++
	s.events = append(s.events, Event{Step: s.steps, Thread: t.id, Name: name, Arg: arg, N: n, VC: t.vc.clone()})
}

// CurrentThread returns the id of the running thread (-1 outside controlled mode).
func CurrentThread() int {
	if active == nil {
		return -1
	}
	return active.cur.id
}

// ---------------------------------------------------------------------------
// channels

func chanPtr(ch any) (reflect.Value, uintptr) {
	v := reflect.ValueOf(ch)
	return v, v.Pointer()
}

// RegChan registers a channel created by instrumented code (`make(chan T, n)`).
func RegChan[C any](ch C) C {
	s := active
	if s == nil {
		return ch
	}
	v, p := chanPtr(ch)
	s.nextObj++
	s.objs[p] = &object{id: s.nextObj, kind: "chan", ch: v, cap: v.Cap()}
	return ch
}

func (s *Sched) chanObj(ch any) *object {
	v, p := chanPtr(ch)
	if p == 0 {
		// nil channel: blocks forever
		return &object{kind: "nilchan", external: true}
	}
	if o, ok := s.objs[p]; ok {
		return o
	}
	s.nextObj++
	o := &object{id: s.nextObj, kind: "extchan", ch: v, external: true}
	s.objs[p] = o
	return o
}

// external (not registered) channels are treated as close-only real channels.
func (o *object) extReady() bool {
	if !o.ch.IsValid() {
		return false
	}
	chosen, _, _ := reflect.Select([]reflect.SelectCase{
		{Dir: reflect.SelectRecv, Chan: o.ch},
		{Dir: reflect.SelectDefault},
	})
	return chosen == 0
}

func (o *object) recvReady() bool {
	if o.kind == "ticker" {
		return true // in a select a tick is always eventually there
	}
	if o.kind == "timer" {
		return o.armed // time is not bounded between two steps: an armed timer may fire before anything else happens
	}
	if o.external {
		return o.extReady()
	}
	return len(o.buf) > 0 || len(o.sendq) > 0 || o.closed
}

func (t *thread) observe(o *object) {
	if o.external {
		v := uint64(0)
		if o.extReady() {
			v = 1
		}
		t.obs = append(t.obs, obsRec{obj: o, ver: v, ext: true})
		return
	}
	t.obs = append(t.obs, obsRec{obj: o, ver: o.ver})
}

// doRecv performs a receive on a ready channel for thread t.
func (s *Sched) doRecv(t *thread, o *object) (v any, ok bool) {
	if o.kind == "ticker" {
		t.mutated = true
		return frozen, true
	}
	if o.kind == "timer" {
		o.armed = false
		o.bump()
		t.mutated = true
		return frozen, true
	}
	if o.external {
		// closed external channel
		t.observe(o)
		t.sawClosed = true
		return nil, false
	}
	switch {
	case len(o.buf) > 0:
		it := o.buf[0]
		o.buf = o.buf[1:]
		t.vc.join(it.vc)
		o.recvVCs = append(o.recvVCs, t.vc.clone())
		// a blocked offer can move into the buffer now
		if len(o.sendq) > 0 {
			of := o.sendq[0]
			o.sendq = o.sendq[1:]
			o.buf = append(o.buf, item{of.v, of.vc})
			of.taken = true
			of.rvc = t.vc.clone()
		}
		o.bump()
		t.mutated = true
		return it.v, true
	case len(o.sendq) > 0:
		of := o.sendq[0]
		o.sendq = o.sendq[1:]
		t.vc.join(of.vc)
		of.taken = true
		of.rvc = t.vc.clone() // unbuffered: the receive happens before the send completes
		o.bump()
		t.mutated = true
		return of.v, true
	default: // closed
		t.vc.join(o.closeVC)
		t.observe(o)
		t.sawClosed = true
		s.events = append(s.events, Event{Step: s.steps, Thread: t.id, Name: "closed-seen", N: o.id, VC: t.vc.clone()})
		return nil, false
	}
}

// Send replaces `ch <- v`.
func Send[T any](ch chan<- T, v T) {
	s := active
	if s == nil {
		ch <- v
		return
	}
	o := s.chanObj(ch)
	if o.external {
		panic("verifrt: send on a channel that was not created by instrumented code")
	}
	t := s.cur
	var of *offer
	wasClosed := false
	s.point(&op{
		desc:  fmt.Sprintf("send c%d", o.id),
		touch: []*object{o},
		enabled: func() bool {
			return o.closed || o.cap == 0 || len(o.buf) < o.cap
		},
		exec: func() {
			t.mutated = true
			if o.closed {
				wasClosed = true
				return
			}
			o.bump()
			if o.cap > 0 {
				// k-th receive happens before the (k+cap)-th send completes
				if k := o.sends - o.cap; k >= 0 && k < len(o.recvVCs) {
					t.vc.join(o.recvVCs[k])
				}
				o.sends++
				o.buf = append(o.buf, item{v, t.vc.clone()})
				return
			}
			// unbuffered: offer the value (the goroutine is now parked in the send queue) ...
			of = &offer{t: t, v: v, vc: t.vc.clone()}
			o.sendq = append(o.sendq, of)
		},
	})
	if wasClosed {
		panic("send on closed channel")
	}
	if of == nil {
		return
	}
	// ... and complete once a receiver took it.
	s.point(&op{
		desc:    fmt.Sprintf("send-complete c%d", o.id),
		touch:   []*object{o},
		enabled: func() bool { return of.taken },
		exec:    func() { t.vc.join(of.rvc) },
	})
}

// Recv replaces `<-ch`.
func Recv[T any](ch <-chan T) T {
	v, _ := Recv2(ch)
	return v
}

// Recv2 replaces `v, ok := <-ch`.
func Recv2[T any](ch <-chan T) (T, bool) {
	s := active
	if s == nil {
		v, ok := <-ch
		return v, ok
	}
	o := s.chanObj(ch)
	t := s.cur
	var zero T
	if o.kind == "ticker" {
		Sleep(time.Millisecond)
		if v, ok := any(frozen).(T); ok {
			return v, true
		}
		return zero, true
	}
	var rv any
	var rok bool
	s.point(&op{
		desc:    fmt.Sprintf("recv c%d", o.id),
		enabled: o.recvReady,
		exec:    func() { rv, rok = s.doRecv(t, o) },
		recvOn:  []*object{o},
		touch:   []*object{o},
	})
	if o.kind == "timer" {
		s.point(&op{desc: "sleep(yield)"}) // waiting for a timer is waiting: let everybody else run
	}
	if !rok || rv == nil {
		if rok {
			return zero, true
		}
		return zero, false
	}
	return rv.(T), true
}

// Close replaces `close(ch)`.
func Close[T any](ch chan<- T) {
	s := active
	if s == nil {
		close(ch)
		return
	}
	o := s.chanObj(ch)
	t := s.cur
	s.point(&op{
		desc:  fmt.Sprintf("close c%d", o.id),
		touch: []*object{o},
		exec: func() {
			t.mutated = true
			if o.external {
				close(ch)
				return
			}
			if o.closed {
				panic("close of closed channel")
			}
			o.closed = true
			o.closeVC = t.vc.clone()
			o.bump()
			// mirror on the real channel so that uninstrumented observers (context propagation) see it
			func() {
				defer func() { _ = recover() }()
				close(ch)
			}()
		},
	})
}

// Case is one case of a rewritten select statement.
type Case struct {
	ch   any
	send bool
	val  any
}

// RecvCase builds a receive case.
func RecvCase[T any](ch <-chan T) Case { return Case{ch: ch} }

// SendCase builds a send case.
func SendCase[T any](ch chan<- T, v T) Case { return Case{ch: ch, send: true, val: v} }

// Sel is the result of Select.
type Sel struct {
	I  int // chosen case index, -1 for default
	v  any
	ok bool
}

func (s *Sched) hasWaitingReceiver(o *object, self *thread) bool {
	for _, t := range s.threads {
		if t == self || t.done || t.pending == nil {
			continue
		}
		for _, r := range t.pending.recvOn {
			if r == o {
				return true
			}
		}
	}
	return false
}

func (s *Sched) caseReady(c Case, o *object, self *thread) bool {
	if !c.send {
		return o.recvReady()
	}
	if o.external {
		return false
	}
	if o.closed {
		return true // proceeds and panics, as in Go
	}
	if o.cap > 0 {
		return len(o.buf) < o.cap
	}
	return s.hasWaitingReceiver(o, self)
}

// Select replaces a select statement.
func Select(hasDefault bool, cases ...Case) *Sel {
	s := active
	if s == nil {
		sc := make([]reflect.SelectCase, 0, len(cases)+1)
		for _, c := range cases {
			if c.send {
				sc = append(sc, reflect.SelectCase{Dir: reflect.SelectSend, Chan: reflect.ValueOf(c.ch), Send: reflect.ValueOf(c.val)})
			} else {
				sc = append(sc, reflect.SelectCase{Dir: reflect.SelectRecv, Chan: reflect.ValueOf(c.ch)})
			}
		}
		if hasDefault {
			sc = append(sc, reflect.SelectCase{Dir: reflect.SelectDefault})
		}
		i, v, ok := reflect.Select(sc)
		if hasDefault && i == len(cases) {
			return &Sel{I: -1}
		}
		r := &Sel{I: i, ok: ok}
		if ok {
			r.v = v.Interface()
		}
		return r
	}
	t := s.cur
	objs := make([]*object, len(cases))
	var recvOn []*object
	for i, c := range cases {
		objs[i] = s.chanObj(c.ch)
		if !c.send && !hasDefault {
			recvOn = append(recvOn, objs[i])
		}
	}
	res := &Sel{I: -1}
	sendClosed := false
	s.point(&op{
		desc:   fmt.Sprintf("select/%d default=%v", len(cases), hasDefault),
		recvOn: recvOn,
		touch:  objs,
		enabled: func() bool {
			if hasDefault {
				return true
			}
			for i, o := range objs {
				if s.caseReady(cases[i], o, t) {
					return true
				}
			}
			return false
		},
		exec: func() {
			var ready []int
			for i, o := range objs {
				if s.caseReady(cases[i], o, t) {
					ready = append(ready, i)
				}
			}
			if len(ready) == 0 {
				// default taken: a pure observation of every channel
				for _, o := range objs {
					t.observe(o)
				}
				return
			}
			pick := 0
			if len(ready) > 1 {
				pick = s.chooser.Choose(ClassSched, len(ready), "select")
				if s.hashing {
					t.mixv(uint64(pick)<<8 | 0xb)
				}
			}
			res.I = ready[pick]
			o := objs[res.I]
			if !cases[res.I].send {
				res.v, res.ok = s.doRecv(t, o)
				return
			}
			t.mutated = true
			if o.closed {
				sendClosed = true
				return
			}
			o.bump()
			if o.cap > 0 {
				if k := o.sends - o.cap; k >= 0 && k < len(o.recvVCs) {
					t.vc.join(o.recvVCs[k])
				}
				o.sends++
				o.buf = append(o.buf, item{cases[res.I].val, t.vc.clone()})
				return
			}
			// unbuffered: a receiver is parked on the channel, hand the value over
			o.sendq = append(o.sendq, &offer{t: t, v: cases[res.I].val, vc: t.vc.clone()})
		},
	})
	if sendClosed {
		panic("send on closed channel")
	}
	if res.I >= 0 && (objs[res.I].kind == "timer" || objs[res.I].kind == "ticker") {
		s.point(&op{desc: "sleep(yield)"}) // the select waited for the clock: a fair yield
	}
	return res
}

// SelRecv returns the value received by the chosen case; ch only fixes the type.
func SelRecv[T any](s *Sel, ch <-chan T) T {
	v, _ := SelRecv2(s, ch)
	return v
}

// SelRecv2 is the two-value form.
func SelRecv2[T any](s *Sel, ch <-chan T) (T, bool) {
	var zero T
	if !s.ok || s.v == nil {
		return zero, s.ok
	}
	return s.v.(T), true
}

// ---------------------------------------------------------------------------
// time

var frozen = time.Date(2020, 1, 1, 0, 0, 0, 0, time.UTC)

// Now replaces time.Now.
func Now() time.Time {
	if active == nil {
		return time.Now()
	}
	return frozen
}

// Since replaces time.Since.
func Since(t time.Time) time.Duration {
	if active == nil {
		return time.Since(t)
	}
	return 0
}

// TimeTick replaces time.Tick.  Controlled: a non-positive period gives a nil channel (as in Go: receiving from it
// blocks for ever); otherwise a modelled ticker - receiving from it is a Sleep of one period (fair yield / park).
func TimeTick(d time.Duration) <-chan time.Time {
	s := active
	if s == nil {
		return time.Tick(d)
	}
	if d <= 0 {
		return nil
	}
	ch := make(chan time.Time)
	v, p := chanPtr(ch)
	s.nextObj++
	s.objs[p] = &object{id: s.nextObj, kind: "ticker", ch: v}
	return ch
}

// Timer replaces *time.Timer.  Controlled: a one-shot object that is ready from its creation until it fires or is
// stopped - the model puts no bound on the time that passes between two steps, so a timer may fire before any other
// pending event (and, since every other thread may run first, after any of them).
type Timer struct {
	C    <-chan time.Time
	real *time.Timer
	o    *object
}

// NewTimer replaces time.NewTimer.
func NewTimer(d time.Duration) *Timer {
	s := active
	if s == nil {
		rt := time.NewTimer(d)
		return &Timer{C: rt.C, real: rt}
	}
	ch := make(chan time.Time, 1)
	v, p := chanPtr(ch)
	s.nextObj++
	o := &object{id: s.nextObj, kind: "timer", ch: v, armed: true}
	s.objs[p] = o
	return &Timer{C: ch, o: o}
}

// After replaces time.After.
func After(d time.Duration) <-chan time.Time { return NewTimer(d).C }

// Stop prevents the timer from firing; it reports whether the timer was still armed.
func (tm *Timer) Stop() bool {
	if tm.real != nil {
		return tm.real.Stop()
	}
	s := active
	was := tm.o.armed
	if s == nil {
		tm.o.armed = false
		return was
	}
	t := s.cur
	s.point(&op{
		desc:  fmt.Sprintf("timer-stop c%d", tm.o.id),
		touch: []*object{tm.o},
		exec: func() {
			was = tm.o.armed
			tm.o.armed = false
			tm.o.bump()
			t.mutated = true
		},
	})
	return was
}

// Reset re-arms the timer; it reports whether the timer was still armed.
func (tm *Timer) Reset(d time.Duration) bool {
	if tm.real != nil {
		return tm.real.Reset(d)
	}
	s := active
	was := tm.o.armed
	if s == nil {
		tm.o.armed = true
		return was
	}
	t := s.cur
	s.point(&op{
		desc:  fmt.Sprintf("timer-reset c%d", tm.o.id),
		touch: []*object{tm.o},
		exec: func() {
			was = tm.o.armed
			tm.o.armed = true
			tm.o.bump()
			t.mutated = true
		},
	})
	return was
}

// Sleep replaces time.Sleep.  Controlled: a fair yield.  After a loop iteration that
// only observed (found nothing) the thread is parked until one of the observed
// objects changes with respect to the version seen at observation time.
func Sleep(d time.Duration) {
	s := active
	if s == nil {
		time.Sleep(d)
		return
	}
	t := s.cur
	// sleep-begin / sleep-end events let oracles reason about whole polling iterations
	s.events = append(s.events, Event{Step: s.steps, Thread: t.id, Name: "sleep-begin"})
	defer func() {
		if active == s && !s.aborted {
			s.events = append(s.events, Event{Step: s.steps, Thread: t.id, Name: "sleep-end"})
		}
	}()
	if t.mutated || len(t.obs) == 0 {
		t.mutated = false
		t.sawClosed = false
		t.obs = t.obs[:0]
		s.point(&op{desc: "sleep(yield)"})
		t.mutated = false
		t.iterHist = t.hist
		return
	}
	if s.hashing && !t.sawClosed {
		t.hist = t.iterHist // the iteration looked and found nothing: it is not part of the state
	}
	t.sawClosed = false
	watch := append([]obsRec(nil), t.obs...)
	t.obs = t.obs[:0]
	var wobjs []*object
	for _, w := range watch {
		wobjs = append(wobjs, w.obj)
	}
	s.point(&op{
		desc:    "sleep(park)",
		sleeper: true,
		touch:   wobjs,
		reads:   true,
		enabled: func() bool {
			if t.force {
				return true
			}
			for _, w := range watch {
				if w.ext {
					v := uint64(0)
					if w.obj.extReady() {
						v = 1
					}
					if v != w.ver {
						return true
					}
					continue
				}
				if w.obj.ver != w.ver {
					return true
				}
			}
			return false
		},
	})
	t.mutated = false
	t.iterHist = t.hist
}

// ---------------------------------------------------------------------------
// mutex objects (used by the vsync shim)

// Obj is an opaque handle to a modelled synchronisation object.
type Obj struct{ o *object }

func (s *Sched) objFor(key uintptr, kind string) *object {
	if o, ok := s.objs[key]; ok {
		return o
	}
	s.nextObj++
	o := &object{id: s.nextObj, kind: kind}
	s.objs[key] = o
	return o
}

// MutexLock models sync.Mutex.Lock / RWMutex.Lock on the object identified by key.
func MutexLock(key uintptr) {
	s := active
	o := s.objFor(key, "mutex")
	t := s.cur
	s.point(&op{
		desc:    fmt.Sprintf("lock m%d", o.id),
		touch:   []*object{o},
		enabled: func() bool { return !o.locked && o.readers == 0 },
		exec: func() {
			o.locked = true
			o.bump()
			t.mutated = true
			t.vc.join(o.relVC)
		},
	})
}

// MutexTryLock models TryLock.
func MutexTryLock(key uintptr) bool {
	s := active
	o := s.objFor(key, "mutex")
	t := s.cur
	got := false
	s.point(&op{
		desc:  fmt.Sprintf("trylock m%d", o.id),
		touch: []*object{o},
		exec: func() {
			if !o.locked && o.readers == 0 {
				o.locked = true
				o.bump()
				t.mutated = true
				t.vc.join(o.relVC)
				got = true
			} else {
				t.observe(o)
			}
		},
	})
	return got
}

// MutexUnlock models Unlock.
func MutexUnlock(key uintptr) {
	s := active
	o := s.objFor(key, "mutex")
	t := s.cur
	s.point(&op{
		desc:  fmt.Sprintf("unlock m%d", o.id),
		touch: []*object{o},
		exec: func() {
			if !o.locked {
				panic("sync: unlock of unlocked mutex")
			}
			o.locked = false
			o.bump()
			t.mutated = true
			o.relVC.join(t.vc)
		},
	})
}

// MutexRLock models RWMutex.RLock.
func MutexRLock(key uintptr) {
	s := active
	o := s.objFor(key, "mutex")
	t := s.cur
	s.point(&op{
		desc:    fmt.Sprintf("rlock m%d", o.id),
		touch:   []*object{o},
		enabled: func() bool { return !o.locked },
		exec: func() {
			o.readers++
			o.bump()
			t.mutated = true
			t.vc.join(o.relVC)
		},
	})
}

// MutexRUnlock models RWMutex.RUnlock.
func MutexRUnlock(key uintptr) {
	s := active
	o := s.objFor(key, "mutex")
	t := s.cur
	s.point(&op{
		desc:  fmt.Sprintf("runlock m%d", o.id),
		touch: []*object{o},
		exec: func() {
			if o.readers <= 0 {
				panic("sync: RUnlock of unlocked RWMutex")
			}
			o.readers--
			o.bump()
			t.mutated = true
			o.relVC.join(t.vc)
		},
	})
}

// WGAdd models WaitGroup.Add.
func WGAdd(key uintptr, n int) {
	s := active
	o := s.objFor(key, "wg")
	t := s.cur
	s.point(&op{
		desc:  fmt.Sprintf("wg.add w%d %d", o.id, n),
		touch: []*object{o},
		exec: func() {
			o.count += n
			if o.count < 0 {
				panic("sync: negative WaitGroup counter")
			}
			o.bump()
			t.mutated = true
			o.relVC.join(t.vc)
		},
	})
}

// WGWait models WaitGroup.Wait.
func WGWait(key uintptr) {
	s := active
	o := s.objFor(key, "wg")
	t := s.cur
	s.point(&op{
		desc:    fmt.Sprintf("wg.wait w%d", o.id),
		touch:   []*object{o},
		enabled: func() bool { return o.count == 0 },
		exec: func() {
			t.mutated = true
			t.vc.join(o.relVC)
		},
	})
}

// ---------------------------------------------------------------------------
// introspection for harness oracles

// CurrentVC returns a copy of the running thread's vector clock.
func CurrentVC() VC {
	if active == nil {
		return nil
	}
	return active.cur.vc.clone()
}

// OthersEnabled counts enabled threads other than the running one whose rank is below EnvRank.
func OthersEnabled() int {
	s := active
	if s == nil {
		return 0
	}
	n := 0
	for _, t := range s.threads {
		if t == s.cur || t.done || t.pending == nil || t.rank >= EnvRank {
			continue
		}
		if t.pending.enabled == nil || t.pending.enabled() {
			n++
		}
	}
	return n
}

// AliveNonEnv counts unfinished threads with rank below EnvRank.
func AliveNonEnv() int {
	s := active
	if s == nil {
		return 0
	}
	n := 0
	for _, t := range s.threads {
		if !t.done && t.rank < EnvRank {
			n++
		}
	}
	return n
}

// Steps returns the number of scheduling steps executed so far.
func Steps() int {
	if active == nil {
		return 0
	}
	return active.steps
}

// ChanID returns the model id of a registered channel (0 if unknown).
func ChanID(ch any) int {
	s := active
	if s == nil {
		return 0
	}
	_, p := chanPtr(ch)
	if o, ok := s.objs[p]; ok {
		return o.id
	}
	return 0
}

// ZeroKV, ZeroIE and ZeroStr return zero values of the iteration variables of a range statement over a map, a slice
// or a string.  The instrumenter uses them (transformation T9) to declare the loop variables once, outside the loop,
// which is what the repository's language version (go < 1.22) means by `for k, v := range x`.
func ZeroKV[M ~map[K]V, K comparable, V any](m M) (k K, v V) { return }

func ZeroIE[S ~[]E, E any](s S) (i int, e E) { return }

func ZeroStr[S ~string](s S) (i int, r rune) { return }
