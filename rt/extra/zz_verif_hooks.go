//go:build go1.23

package getoptions

import "io"

// VerifSetExit replaces the unexported exit function used by completion (overlay-only file).
func VerifSetExit(f func(int)) { exitFn = f }

// VerifSetCompletionWriter replaces the unexported completion writer (overlay-only file).
func VerifSetCompletionWriter(w io.Writer) { completionWriter = w }
