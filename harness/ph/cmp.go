package ph

import (
	"fmt"
	"sort"
	"strings"
)

// Facets selects what Compare looks at.
type Facets struct {
	Err       bool
	ErrDetail bool // kind / quoted name of the error
	Remaining bool
	Vals      bool
	Called    bool
	CalledAs  bool
	Warnings  bool
}

// AllFacets compares everything.
var AllFacets = Facets{true, true, true, true, true, true, true}

func eqStrings(a, b []string) bool {
	if len(a) != len(b) {
		return false
	}
	for i := range a {
		if a[i] != b[i] {
			return false
		}
	}
	return true
}

// errMatches checks the class of the error message against the expected kind.
func errMatches(ex *Expect, o *Outcome) string {
	msg := o.ParseErr
	q := func(s string) string { return "'" + s + "'" }
	switch ex.ErrKind {
	case "ambiguous":
		want := fmt.Sprintf("Ambiguous option '%s', matches %v!", ex.ErrName, ex.ErrCands)
		if msg != want {
			return fmt.Sprintf("ambiguity error should read %q, got %q", want, msg)
		}
	case "missing-arg", "dash-arg":
		if !strings.HasPrefix(msg, "Missing argument for option "+q(ex.ErrName)) {
			return fmt.Sprintf("expected a missing-argument error for option %q, got %q", ex.ErrName, msg)
		}
		if !o.IsParsing {
			return fmt.Sprintf("missing-argument error is not ErrorParsing: %q", msg)
		}
	case "convert":
		if !strings.HasPrefix(msg, "Argument error for option "+q(ex.ErrName)+": Can't convert string to") {
			return fmt.Sprintf("expected a conversion error for option %q, got %q", ex.ErrName, msg)
		}
	case "keyvalue":
		if !strings.HasPrefix(msg, "Argument error for option "+q(ex.ErrName)) {
			return fmt.Sprintf("expected a key=value error for option %q, got %q", ex.ErrName, msg)
		}
	case "unknown":
		want := fmt.Sprintf("Unknown option '%s'", ex.ErrName)
		if msg != want {
			return fmt.Sprintf("expected error %q, got %q", want, msg)
		}
	case "required":
		if !o.IsParsing {
			return fmt.Sprintf("missing required option error is not ErrorParsing: %q", msg)
		}
		ok := false
		for _, p := range ex.Missing {
			if msg == ex.MissingMsg[p] {
				ok = true
			}
		}
		if !ok {
			return fmt.Sprintf("missing required option: error %q does not carry the message of any missing option %v", msg, ex.MissingMsg)
		}
	case "required-or-unknown":
	}
	return ""
}

// Compare returns the disagreements between the real outcome and the reference model.
func Compare(ex *Expect, o *Outcome, f Facets) []string {
	var out []string
	if o.Panic != "" {
		return []string{"panic: " + o.Panic}
	}
	if o.Hang {
		return []string{"loop budget exhausted (hang)"}
	}
	if f.Err {
		if ex.Err != o.HasErr {
			if ex.Err {
				out = append(out, fmt.Sprintf("Parse should fail (%s %q) but returned no error", ex.ErrKind, ex.ErrName))
			} else {
				out = append(out, fmt.Sprintf("Parse should succeed but returned error %q", o.ParseErr))
			}
			return out
		}
		if ex.Err && f.ErrDetail {
			if m := errMatches(ex, o); m != "" {
				out = append(out, m)
			}
		}
	}
	if ex.Err || o.HasErr {
		if o.HasErr && !o.RemNil {
			out = append(out, "failed Parse returned a non-nil remaining list")
		}
		return out
	}
	if f.Remaining {
		if !eqStrings(ex.Remaining, o.Remaining) {
			out = append(out, fmt.Sprintf("remaining is %q, want %q", o.Remaining, ex.Remaining))
		}
	}
	keys := make([]string, 0, len(ex.Vals))
	for k := range ex.Vals {
		if len(ex.UnspecVals) > 0 {
			break
		}
		keys = append(keys, k)
	}
	sort.Strings(keys)
	for _, k := range keys {
		if f.Vals {
			if o.Vals[k] != ex.Vals[k] {
				out = append(out, fmt.Sprintf("option %s reads %s, want %s", k, o.Vals[k], ex.Vals[k]))
			}
			if o.ValsAPI[k] != o.Vals[k] {
				out = append(out, fmt.Sprintf("option %s: Value() is %s but the variable holds %s", k, o.ValsAPI[k], o.Vals[k]))
			}
		}
		if f.Called && o.Called[k] != ex.Called[k] {
			out = append(out, fmt.Sprintf("Called(%s) is %v, want %v", k, o.Called[k], ex.Called[k]))
		}
		if f.CalledAs && ex.Called[k] && o.CalledAs[k] != ex.CalledAs[k] {
			out = append(out, fmt.Sprintf("CalledAs(%s) is %q, want %q", k, o.CalledAs[k], ex.CalledAs[k]))
		}
		if f.CalledAs && !ex.Called[k] && !o.Called[k] && o.CalledAs[k] != "" {
			out = append(out, fmt.Sprintf("CalledAs(%s) is %q although the option was not called", k, o.CalledAs[k]))
		}
	}
	if f.Warnings {
		if m := warnMatches(ex, o.Warnings); m != "" {
			out = append(out, m)
		}
	}
	return out
}

// warnMatches: the Writer holds exactly one warning line per unknown option name, in order.
func warnMatches(ex *Expect, w string) string {
	var lines []string
	for _, l := range strings.Split(w, "\n") {
		if l != "" {
			lines = append(lines, l)
		}
	}
	var want []string
	for _, n := range ex.WarnNames {
		want = append(want, fmt.Sprintf("WARNING: Unknown option '%s'", n))
	}
	if !eqStrings(lines, want) {
		return fmt.Sprintf("Writer received %q, want the warnings %q", lines, want)
	}
	return ""
}
