package ph

import (
	"fmt"
	"sort"
	"strconv"
	"strings"
	"unicode/utf8"
)

// The reference model of the option language.  Written from the documentation and the
// property statements: one plain loop over the tokens, no cleverness.  Whenever the
// input leaves the territory the properties speak about, the case is marked with the
// zone (U1..U15) it fell into and callers do not compare it.

// Expect is what the reference model says a Parse(+Dispatch) must produce.
type Expect struct {
	Unspec     []string // non-empty: outside the specified territory
	UnspecVals []string // non-empty: option values / Called are unspecified, everything else is compared

	Err       bool
	ErrKind   string // ambiguous | missing-arg | dash-arg | convert | unknown | required | keyvalue
	ErrName   string // option name / token the message must quote
	ErrCands  []string
	IsParsing int // 1 must be ErrorParsing, 0 unspecified
	Remaining []string
	// RemainingAll is the conservation view of Remaining: every token that is not consumed as a known option, a value
	// or a command name, whatever the unknown-option policy does with the parse (kept even when Err is set because of
	// an unknown option).
	RemainingAll []string
	Vals         map[string]string
	Called       map[string]bool
	CalledAs     map[string]string
	WarnNames    []string // unknown option names warned about (Warn mode)
	Unknowns     []string // unknown tokens in order
	Consumed     []bool   // per argv index: consumed as option / value / command name
	TermIdx      int      // index of the `--` reached by the parser, -1 if none
	StopIdx      int      // index at which require-order stopped, -1 if none
	Level        string   // path of the selected command level
	HelpCalled   bool
	Missing      []string // missing required options (paths) of the selected level
	MissingMsg   map[string]string

	// swallowed `--`: the terminator was legitimately taken as a mandatory value
	DashDashAsValue bool
}

type specOpt struct {
	def      *OptDef
	path     string
	b        bool
	i        int
	f        float64
	s        string
	ss       []string
	is       []int
	fs       []float64
	m        map[string]string
	called   bool
	calledAs string
}

func (o *specOpt) render() string {
	switch o.def.Kind {
	case Bool:
		return renderAny(o.b)
	case Incr, Int, IntOpt:
		return renderAny(o.i)
	case Flt, FltOpt:
		return renderAny(o.f)
	case Str, StrOpt:
		return renderAny(o.s)
	case StrS:
		if o.ss == nil {
			return renderAny([]string{})
		}
		return renderAny(o.ss)
	case IntS:
		if o.is == nil {
			return renderAny([]int{})
		}
		return renderAny(o.is)
	case FltS:
		if o.fs == nil {
			return renderAny([]float64{})
		}
		return renderAny(o.fs)
	default:
		return renderAny(o.m)
	}
}

type specLevel struct {
	def     *CmdDef
	path    string
	parent  *specLevel
	own     []*specOpt
	keys    map[string]*specOpt // name/alias -> option, own + inherited
	kids    map[string]*specLevel
	unknown int
	isHelp  bool
	ro      bool
}

type specProg struct {
	def        *Def
	root       *specLevel
	levels     []*specLevel
	help       *specOpt
	unspec     map[string]bool
	unspecVals map[string]bool
}

func (sp *specProg) mark(z string)     { sp.unspec[z] = true }
func (sp *specProg) markVals(z string) { sp.unspecVals[z] = true }

// IsOptionLooking is the language-level notion: starts with a dash and is not the terminator.
func IsOptionLooking(t string) bool {
	return strings.HasPrefix(t, "-") && t != "--"
}

func newSpecProg(def *Def, env map[string]string) *specProg {
	sp := &specProg{def: def, unspec: map[string]bool{}, unspecVals: map[string]bool{}}
	var build func(cd *CmdDef, parent *specLevel) *specLevel
	build = func(cd *CmdDef, parent *specLevel) *specLevel {
		l := &specLevel{def: cd, parent: parent, keys: map[string]*specOpt{}, kids: map[string]*specLevel{}}
		if parent != nil {
			if parent.path == "" {
				l.path = cd.Name
			} else {
				l.path = parent.path + "/" + cd.Name
			}
			l.unknown = parent.unknown
			l.ro = parent.ro || cd.RequireOrder
			if cd.Unknown > 0 {
				l.unknown = cd.Unknown - 1
			}
			if !cd.Unset {
				for k, v := range parent.keys {
					l.keys[k] = v
				}
			}
		} else {
			l.unknown = def.Unknown
			l.ro = def.RequireOrder
		}
		sp.levels = append(sp.levels, l)
		for i := range cd.Opts {
			od := &cd.Opts[i]
			o := &specOpt{def: od, path: l.path + "/" + od.Name, b: od.DefB, i: od.DefI, f: od.DefF, s: od.DefS}
			if od.Kind == Map {
				o.m = map[string]string{}
				for _, kv := range od.Preset {
					o.m[kv[0]] = kv[1]
				}
			}
			if len(od.PreValue) > 0 && (od.Kind == Str || od.Kind == StrOpt) {
				o.s = od.PreValue[0] // SetValue before Parse: the value, not the Called state
			}
			// environment (C12): read at definition time
			if od.Env != "" {
				if v, ok := env[od.Env]; ok && v != "" {
					sp.applyEnv(o, v)
				}
			}
			if od.SetCalled {
				o.called = true
			}
			l.own = append(l.own, o)
			if _, dup := l.keys[od.Name]; dup {
				sp.mark("U13")
			}
			l.keys[od.Name] = o
			for _, a := range od.Aliases {
				if _, dup := l.keys[a]; dup {
					sp.mark("U13")
				}
				l.keys[a] = o
			}
		}
		if parent == nil && def.Help != "" {
			// the help option is declared at the root (after everything else) and inherited
			ho := &OptDef{Name: def.Help, Kind: Bool, Aliases: def.HelpAliases}
			sp.help = &specOpt{def: ho, path: "/" + def.Help}
			l.own = append(l.own, sp.help)
			l.keys[def.Help] = sp.help
			for _, a := range def.HelpAliases {
				l.keys[a] = sp.help
			}
		}
		for _, kd := range cd.Cmds {
			l.kids[kd.Name] = build(kd, l)
		}
		return l
	}
	sp.root = build(&def.Root, nil)
	if def.Help != "" {
		// a help command hangs below every level; it inherits nothing
		for _, l := range append([]*specLevel(nil), sp.levels...) {
			hl := &specLevel{def: &CmdDef{Name: def.Help}, parent: l, keys: map[string]*specOpt{}, kids: map[string]*specLevel{}, isHelp: true}
			if l.path == "" {
				hl.path = def.Help
			} else {
				hl.path = l.path + "/" + def.Help
			}
			hl.unknown = 0
			l.kids[def.Help] = hl
		}
	}
	return sp
}

func (sp *specProg) applyEnv(o *specOpt, v string) {
	switch o.def.Kind {
	case Bool:
		lv := strings.ToLower(v)
		if lv == "true" {
			o.b = true
		} else if lv == "false" {
			o.b = false
		} else {
			return // invalid text: nothing changes
		}
		o.called, o.calledAs = true, o.def.Env
	case Str, StrOpt:
		o.s = v
		o.called, o.calledAs = true, o.def.Env
	case Int, IntOpt:
		if n, err := strconv.Atoi(v); err == nil {
			o.i = n
			o.called, o.calledAs = true, o.def.Env
		} else {
			sp.mark("U11")
		}
	case Flt, FltOpt:
		if f, err := strconv.ParseFloat(v, 64); err == nil {
			o.f = f
			o.called, o.calledAs = true, o.def.Env
		} else {
			sp.mark("U11")
		}
	}
}

type pair struct {
	name     string
	attached *string
}

// rewrite is the documented table of C07.
func (sp *specProg) rewrite(t string) []pair {
	long := func(body string) []pair {
		if i := strings.Index(body, "="); i >= 0 {
			v := body[i+1:]
			return []pair{{body[:i], &v}}
		}
		return []pair{{body, nil}}
	}
	if t == "-" {
		return []pair{{"-", nil}}
	}
	if strings.HasPrefix(t, "--") {
		body := t[2:]
		if strings.HasPrefix(body, "-") || strings.HasPrefix(body, "=") || body == "" {
			sp.mark("U4")
		}
		return long(body)
	}
	body := t[1:]
	if strings.HasPrefix(body, "=") {
		sp.mark("U4")
	}
	if !utf8.ValidString(body) {
		sp.mark("U4")
	}
	switch sp.def.Mode {
	case 1: // bundling: one option per character, the attached value goes to the last one
		name := body
		var att *string
		if i := strings.Index(body, "="); i >= 0 {
			v := body[i+1:]
			name, att = body[:i], &v
		}
		var ps []pair
		for _, r := range name {
			ps = append(ps, pair{string(r), nil})
		}
		if len(ps) > 0 {
			ps[len(ps)-1].attached = att
		}
		return ps
	case 2: // single dash: first character is the option, the rest its value
		r, size := utf8.DecodeRuneInString(body)
		rest := body[size:]
		if rest == "" {
			return []pair{{string(r), nil}}
		}
		return []pair{{string(r), &rest}}
	default:
		return long(body)
	}
}

func (l *specLevel) match(name string) []string {
	if _, ok := l.keys[name]; ok {
		return []string{name}
	}
	var m []string
	for k := range l.keys {
		if strings.HasPrefix(k, name) {
			m = append(m, k)
		}
	}
	sort.Strings(m)
	return m
}

// RequireOrder of a level: inherited from the root at creation.
func (sp *specProg) requireOrder(l *specLevel) bool {
	if l.isHelp {
		return false
	}
	return l.ro
}

// SpecParse runs the reference model.
func SpecParse(def *Def, env map[string]string, argv []string) *Expect {
	sp := newSpecProg(def, env)
	ex := &Expect{TermIdx: -1, StopIdx: -1, Consumed: make([]bool, len(argv))}
	level := sp.root
	type unk struct {
		tok   string
		names []string
		level *specLevel
	}
	var unknowns []unk
	fail := func(kind, name string) {
		ex.Err = true
		ex.ErrKind = kind
		ex.ErrName = name
	}
	i := 0
LOOP:
	for i < len(argv) {
		t := argv[i]
		if t == "--" {
			ex.TermIdx = i
			ex.Consumed[i] = true
			ex.Remaining = append(ex.Remaining, argv[i+1:]...)
			ex.RemainingAll = append(ex.RemainingAll, argv[i+1:]...)
			break
		}
		if strings.HasPrefix(t, "-=") || strings.HasPrefix(t, "--=") {
			// dashes directly followed by `=`: names no option.  Under require-order it is a token that is neither a
			// known option nor a value nor a command either way (stop); otherwise whether it counts as text or as
			// an unknown option is not stated (zone U4) - but it is never consumed, so the conservation view keeps it.
			if sp.requireOrder(level) {
				ex.StopIdx = i
				ex.Remaining = append(ex.Remaining, argv[i:]...)
				ex.RemainingAll = append(ex.RemainingAll, argv[i:]...)
				break
			}
			sp.mark("U4")
			ex.Remaining = append(ex.Remaining, t)
			ex.RemainingAll = append(ex.RemainingAll, t)
			i++
			continue
		}
		if IsOptionLooking(t) {
			if level.isHelp {
				sp.mark("U16") // options given to the built-in help command
			}
			pairs := sp.rewrite(t)
			tokenUnknown := false
			var unkNames []string
			tokIdx := i
			for pi, p := range pairs {
				if p.name == "" {
					sp.mark("U4")
				}
				m := level.match(p.name)
				if len(m) > 1 {
					fail("ambiguous", t)
					ex.ErrCands = m
					break LOOP
				}
				if len(m) == 0 {
					if sp.requireOrder(level) {
						if pi > 0 {
							sp.markVals("U14") // whether the declared letters before the stop take effect is not stated
						}
						if i > tokIdx {
							// an earlier letter of the bundle has already taken the following token(s) as its value: "the stop
							// token and everything after it verbatim" and "a value is consumed" cannot both hold
							sp.mark("U14")
						}
						ex.StopIdx = tokIdx
						ex.Remaining = append(ex.Remaining, argv[tokIdx:]...)
						ex.RemainingAll = append(ex.RemainingAll, argv[tokIdx:]...)
						break LOOP
					}
					tokenUnknown = true
					unkNames = append(unkNames, p.name)
					continue
				}
				o := level.keys[m[0]]
				o.called, o.calledAs = true, m[0]
				if sp.def.Mode == 1 && pi < len(pairs)-1 && !o.def.Kind.IsFlag() && pairs[len(pairs)-1].attached != nil {
					sp.mark("U5") // `-sv=x` with s taking a value: who gets x is not stated (without `=x`, s takes the following tokens like any occurrence)
				}
				if !sp.intake(ex, o, m[0], p.attached, argv, &i) {
					break LOOP
				}
			}
			ex.Consumed[tokIdx] = !tokenUnknown
			if tokenUnknown {
				unknowns = append(unknowns, unk{t, unkNames, level})
				ex.Unknowns = append(ex.Unknowns, t)
				ex.RemainingAll = append(ex.RemainingAll, t)
				if level.unknown != 0 {
					ex.Remaining = append(ex.Remaining, t)
				}
				if len(unkNames) != len(pairs) {
					sp.markVals("U6") // token mixes declared and undeclared letters: whether the declared ones take effect is not stated
				}
			}
			i++
			continue
		}
		if kid, ok := level.kids[t]; ok {
			ex.Consumed[i] = true
			level = kid
			i++
			continue
		}
		if sp.requireOrder(level) {
			ex.StopIdx = i
			ex.Remaining = append(ex.Remaining, argv[i:]...)
			ex.RemainingAll = append(ex.RemainingAll, argv[i:]...)
			break
		}
		ex.Remaining = append(ex.Remaining, t)
		ex.RemainingAll = append(ex.RemainingAll, t)
		i++
	}
	ex.Level = level.path

	// results so far
	ex.Vals = map[string]string{}
	ex.Called = map[string]bool{}
	ex.CalledAs = map[string]string{}
	for _, l := range sp.levels {
		for _, o := range l.own {
			ex.Vals[o.path] = o.render()
			ex.Called[o.path] = o.called
			ex.CalledAs[o.path] = o.calledAs
		}
	}
	helpVisible := false
	if sp.help != nil {
		if h, ok := level.keys[def.Help]; ok && h == sp.help {
			helpVisible = true
		}
	}
	ex.HelpCalled = sp.help != nil && sp.help.called && helpVisible
	if sp.help != nil && sp.help.called && !helpVisible {
		sp.mark("U17") // help option given above a wrapper / help command: not visible at the selected level
	}

	if !ex.Err {
		// required options of the selected level
		ex.MissingMsg = map[string]string{}
		seen := map[*specOpt]bool{}
		for _, o := range level.keys {
			if o.def.Required && !o.called && !seen[o] {
				seen[o] = true
				ex.Missing = append(ex.Missing, o.path)
				msg := o.def.ReqMsg
				if msg == "" {
					msg = fmt.Sprintf("Missing required parameter '%s'", o.def.Name)
				}
				ex.MissingMsg[o.path] = msg
			}
		}
		sort.Strings(ex.Missing)
		// a different unknown-mode on the path makes the policy ambiguous
		for _, u := range unknowns {
			if u.level.unknown != level.unknown {
				sp.mark("U15")
			}
		}
		rootRequired := level == sp.root && len(ex.Missing) > 0 && !ex.HelpCalled
		if rootRequired {
			fail("required", "")
			ex.IsParsing = 1
			if len(unknowns) > 0 && level.unknown == 0 {
				ex.ErrKind = "required-or-unknown"
			}
		} else if len(unknowns) > 0 {
			switch level.unknown {
			case 0:
				fail("unknown", unknowns[0].names[0])
			case 1:
				for _, u := range unknowns {
					ex.WarnNames = append(ex.WarnNames, u.names...)
				}
			}
		}
	}
	if ex.Err {
		ex.Remaining = nil
	}
	for z := range sp.unspec {
		ex.Unspec = append(ex.Unspec, z)
	}
	sort.Strings(ex.Unspec)
	for z := range sp.unspecVals {
		ex.UnspecVals = append(ex.UnspecVals, z)
	}
	sort.Strings(ex.UnspecVals)
	return ex
}

// intake consumes the value(s) of option o.  Returns false after recording an error.
func (sp *specProg) intake(ex *Expect, o *specOpt, used string, attached *string, argv []string, i *int) bool {
	k := o.def.Kind
	fail := func(kind string) bool {
		ex.Err = true
		ex.ErrKind = kind
		ex.ErrName = used
		if kind == "missing-arg" || kind == "dash-arg" {
			ex.IsParsing = 1
		}
		return false
	}
	if attached != nil && *attached == "" {
		sp.mark("U2")
		attached = nil
	}
	if k.IsFlag() {
		if attached != nil {
			sp.mark("U1")
		}
		if k == Bool {
			o.b = !o.def.DefB
		} else {
			o.i++
		}
		return true
	}
	if len(o.def.Valid) > 0 {
		sp.mark("U8")
	}
	next := func() (string, bool) {
		if *i+1 < len(argv) {
			return argv[*i+1], true
		}
		return "", false
	}
	take := func() string {
		*i++
		ex.Consumed[*i] = true
		return argv[*i]
	}
	save := func(v string, mandatory bool) bool {
		switch k {
		case Str, StrOpt:
			o.s = v
		case Int, IntOpt:
			if v == "" {
				sp.mark("U3")
			}
			n, err := strconv.Atoi(v)
			if err != nil {
				return fail("convert")
			}
			o.i = n
		case Flt, FltOpt:
			if v == "" {
				sp.mark("U3")
			}
			f, err := strconv.ParseFloat(v, 64)
			if err != nil {
				return fail("convert")
			}
			o.f = f
		case StrS:
			o.ss = append(o.ss, v)
		case IntS:
			if v == "" {
				sp.mark("U3")
			}
			if strings.Contains(v, "..") {
				parts := strings.SplitN(v, "..", 2)
				a, e1 := strconv.Atoi(parts[0])
				b, e2 := strconv.Atoi(parts[1])
				if e1 != nil || e2 != nil || a >= b {
					if e1 == nil && e2 == nil || strings.Count(v, "..") > 1 {
						sp.mark("U7")
					}
					return fail("convert")
				}
				if b-a > 100000 {
					sp.mark("U7")
					return fail("convert")
				}
				for x := a; x <= b; x++ {
					o.is = append(o.is, x)
				}
				return true
			}
			n, err := strconv.Atoi(v)
			if err != nil {
				return fail("convert")
			}
			o.is = append(o.is, n)
		case FltS:
			if v == "" {
				sp.mark("U3")
			}
			f, err := strconv.ParseFloat(v, 64)
			if err != nil {
				return fail("convert")
			}
			o.fs = append(o.fs, f)
		case Map:
			idx := strings.Index(v, "=")
			if idx < 0 {
				return fail("keyvalue")
			}
			key := v[:idx]
			if sp.def.MapLower {
				key = strings.ToLower(key)
			}
			o.m[key] = v[idx+1:]
		}
		return true
	}
	wellFormed := func(v string) bool {
		switch k {
		case IntS:
			_, err := strconv.Atoi(v)
			return err == nil
		case FltS:
			_, err := strconv.ParseFloat(v, 64)
			return err == nil
		case Map:
			return strings.Contains(v, "=")
		}
		return true
	}
	min, max := 1, 1
	if k.IsOptional() {
		min = 0
	}
	if k.IsMulti() {
		min, max = o.def.Min, o.def.Max
	}
	n := 0
	if attached != nil {
		if !save(*attached, true) {
			return false
		}
		n = 1
	}
	for ; n < min; n++ {
		v, ok := next()
		if !ok {
			return fail("missing-arg")
		}
		if IsOptionLooking(v) {
			if strings.HasPrefix(v, "-=") || strings.HasPrefix(v, "--=") || (v != "-" && strings.TrimLeft(v, "-") == "") {
				sp.mark("U4v") // dashes followed by `=` (or only dashes) where a value is due: whether it is taken is not stated
			}
			return fail("dash-arg")
		}
		if v == "--" {
			ex.DashDashAsValue = true
		}
		take()
		if !save(v, true) {
			return false
		}
	}
	for ; n < max; n++ {
		v, ok := next()
		if !ok || v == "--" {
			break
		}
		if IsOptionLooking(v) {
			if strings.HasPrefix(v, "-=") || strings.HasPrefix(v, "--=") {
				sp.mark("U4v")
			}
			break
		}
		if k.IsMulti() && !wellFormed(v) {
			break
		}
		take()
		if !save(v, false) {
			return false
		}
	}
	return true
}
