// Package ph (parser harness) builds real getoptions programs from a declarative
// definition, runs Parse / Dispatch / Help on them and records everything a user
// program could observe.  spec.go holds the boring reference model of the option
// language the observations are compared with.
package ph

import (
	"bytes"
	"context"
	"errors"
	"fmt"
	"math"
	"os"
	"sort"
	"strconv"
	"strings"
	"time"

	"github.com/DavidGamba/go-getoptions"
	"github.com/DavidGamba/go-getoptions/verifrt"
)

type Kind int

const (
	Bool Kind = iota
	Incr
	Str
	Int
	Flt
	StrOpt
	IntOpt
	FltOpt
	StrS
	IntS
	FltS
	Map
)

var kindNames = []string{"bool", "increment", "string", "int", "float64", "stringOptional", "intOptional", "float64Optional", "[]string", "[]int", "[]float64", "map"}

func (k Kind) String() string { return kindNames[k] }

func (k Kind) IsFlag() bool     { return k == Bool || k == Incr }
func (k Kind) IsOptional() bool { return k == StrOpt || k == IntOpt || k == FltOpt }
func (k Kind) IsMulti() bool    { return k >= StrS }
func (k Kind) IsScalar() bool   { return k >= Str && k <= FltOpt }

// OptDef declares one option.
type OptDef struct {
	Name       string      `json:"name"`
	Aliases    []string    `json:"aliases,omitempty"`
	Kind       Kind        `json:"kind"`
	DefB       bool        `json:"defb,omitempty"`
	DefI       int         `json:"defi,omitempty"`
	DefF       float64     `json:"deff,omitempty"`
	DefS       string      `json:"defs,omitempty"`
	Min        int         `json:"min,omitempty"`
	Max        int         `json:"max,omitempty"`
	Required   bool        `json:"required,omitempty"`
	ReqMsg     string      `json:"reqmsg,omitempty"`
	Env        string      `json:"env,omitempty"`
	Var        bool        `json:"var,omitempty"` // declare through the *Var form
	SetCalled  bool        `json:"setcalled,omitempty"`
	Suggested  []string    `json:"suggested,omitempty"`
	Valid      []string    `json:"valid,omitempty"`
	SuggestFn  bool        `json:"suggestfn,omitempty"`
	Desc       string      `json:"desc,omitempty"`
	ArgName    string      `json:"argname,omitempty"`
	SplitAlias bool        `json:"split_alias,omitempty"` // one opt.Alias(...) modifier per alias instead of a single call
	Preset     [][2]string `json:"preset,omitempty"`      // map kind: entries the caller's map already holds (*Var form: when it is declared; otherwise put into the returned map right after the declaration)
	PreValue   []string    `json:"prevalue,omitempty"`    // SetValue(name, PreValue...) is called after the declarations, before Parse (a value from a config file)
}

// SlowFnDelay is how long the completion function declared by ArgFnSlow takes to answer.
var SlowFnDelay = 1500 * time.Millisecond

// CmdDef declares one command level (the root is a CmdDef too).
type CmdDef struct {
	Name         string      `json:"name"`
	Desc         string      `json:"desc,omitempty"`
	Opts         []OptDef    `json:"opts,omitempty"`
	Cmds         []*CmdDef   `json:"cmds,omitempty"`
	NoFn         bool        `json:"nofn,omitempty"`
	Unset        bool        `json:"unset,omitempty"`         // wrapper: UnsetOptions()
	Unknown      int         `json:"unknown,omitempty"`       // 0 = inherit, else mode+1 set on this command
	RequireOrder bool        `json:"require_order,omitempty"` // SetRequireOrder() called on this command (inherited by its sub-commands)
	ArgCompl     []string    `json:"argcompl,omitempty"`
	ArgFn        bool        `json:"argfn,omitempty"`
	ArgFnSlow    bool        `json:"argfn_slow,omitempty"` // a further dynamic completion function that takes 1.5 s to answer (a network lookup)
	SynArgs      [][2]string `json:"synargs,omitempty"`
	ReqArgs      int         `json:"req_args,omitempty"`  // the command function fetches this many positional arguments with GetRequiredArg
	SelfDesc     bool        `json:"self_desc,omitempty"` // cmd.Self("", text) is called on the command: the documented way to give it a long description
}

// Def is a whole program definition.
type Def struct {
	Root            CmdDef   `json:"root"`
	Mode            int      `json:"mode"`    // 0 normal, 1 bundling, 2 singleDash
	Unknown         int      `json:"unknown"` // 0 fail, 1 warn, 2 pass
	RequireOrder    bool     `json:"require_order,omitempty"`
	LateMode        bool     `json:"late_mode,omitempty"`         // SetMode is called after all options and commands have been declared
	EarlyHelp       bool     `json:"early_help,omitempty"`        // Help() is rendered (and discarded) after every declaration step
	LateEnv         bool     `json:"late_env,omitempty"`          // the environment variables are set after getoptions.New() and before the options are declared
	MapLower        bool     `json:"map_lower,omitempty"`         // SetMapKeysToLower()
	WriterFails     bool     `json:"writer_fails,omitempty"`      // every Write on getoptions.Writer reports an error (closed stderr); what was attempted is still recorded
	CompWriterFails bool     `json:"comp_writer_fails,omitempty"` // the stream the completion candidates are written to fails (the shell end of the pipe is gone)
	Help            string   `json:"help,omitempty"`              // name of the help command/option, "" = none
	HelpAliases     []string `json:"help_aliases,omitempty"`
}

var modeNames = []string{"normal", "bundling", "singleDash"}
var unknownNames = []string{"fail", "warn", "pass"}

func (d *Def) ConfigString() string {
	s := modeNames[d.Mode] + "/" + unknownNames[d.Unknown]
	if d.RequireOrder {
		s += "/requireOrder"
	}
	if d.LateMode {
		s += "/SetMode-after-commands"
	}
	if d.LateEnv {
		s += "/env-set-after-New"
	}
	if d.WriterFails {
		s += "/Writer-fails"
	}
	return s
}

// ---------------------------------------------------------------------------
// values

// Val is the canonical rendering of an option value.
func renderFloat(f float64) string {
	if math.IsNaN(f) {
		return "NaN"
	}
	return strconv.FormatFloat(f, 'g', -1, 64) + "#" + strconv.FormatUint(math.Float64bits(f), 16)
}

func renderStrings(ss []string) string {
	q := make([]string, len(ss))
	for i, s := range ss {
		q[i] = strconv.Quote(s)
	}
	return "[" + strings.Join(q, ",") + "]"
}

func renderInts(is []int) string {
	q := make([]string, len(is))
	for i, s := range is {
		q[i] = strconv.Itoa(s)
	}
	return "[" + strings.Join(q, ",") + "]"
}

func renderFloats(fs []float64) string {
	q := make([]string, len(fs))
	for i, s := range fs {
		q[i] = renderFloat(s)
	}
	return "[" + strings.Join(q, ",") + "]"
}

func renderMap(m map[string]string) string {
	keys := make([]string, 0, len(m))
	for k := range m {
		keys = append(keys, k)
	}
	sort.Strings(keys)
	q := make([]string, len(keys))
	for i, k := range keys {
		q[i] = strconv.Quote(k) + ":" + strconv.Quote(m[k])
	}
	return "{" + strings.Join(q, ",") + "}"
}

func renderAny(v interface{}) string {
	switch x := v.(type) {
	case bool:
		return strconv.FormatBool(x)
	case int:
		return strconv.Itoa(x)
	case float64:
		return renderFloat(x)
	case string:
		return strconv.Quote(x)
	case []string:
		return renderStrings(x)
	case []int:
		return renderInts(x)
	case []float64:
		return renderFloats(x)
	case map[string]string:
		return renderMap(x)
	case nil:
		return "<nil>"
	}
	return fmt.Sprintf("?%T:%v", v, v)
}

// ---------------------------------------------------------------------------
// building the real program

type optHandle struct {
	def  *OptDef
	path string // level path + "/" + name
	pb   *bool
	pi   *int
	pf   *float64
	ps   *string
	pss  *[]string
	pis  *[]int
	pfs  *[]float64
	pm   map[string]string
	pmv  *map[string]string
}

func (h *optHandle) ptrValue() string {
	switch {
	case h.pb != nil:
		return renderAny(*h.pb)
	case h.pi != nil:
		return renderAny(*h.pi)
	case h.pf != nil:
		return renderAny(*h.pf)
	case h.ps != nil:
		return renderAny(*h.ps)
	case h.pss != nil:
		return renderAny(*h.pss)
	case h.pis != nil:
		return renderAny(*h.pis)
	case h.pfs != nil:
		return renderAny(*h.pfs)
	case h.pmv != nil:
		return renderAny(*h.pmv)
	default:
		return renderAny(h.pm)
	}
}

type level struct {
	def    *CmdDef
	path   string // "" for root, "c", "c/e"
	opt    *getoptions.GetOpt
	parent *level
	opts   []*optHandle
	kids   []*level
}

// CallRec is one invocation of an instrumented CommandFn.
type CallRec struct {
	Path    string
	Args    []string
	ArgsNil bool
	CtxOK   bool
	// results of the ReqArgs calls of GetRequiredArg the function makes (value, failed)
	ReqArgs    []string
	ReqArgErrs []bool
	Vals    map[string]string // Value(name) inside the function for own+inherited primary names
	Called  map[string]bool
}

// Prog is a built program.
type Prog struct {
	Def    *Def
	Root   *level
	Levels []*level
	Calls  []CallRec
	W      *bytes.Buffer
	Comp   *bytes.Buffer
	Exits  []int
	ctx    context.Context
	envSet []string
	Fns    int // completion functions invoked
	// a panic or an exhausted loop budget while the program was being declared (GetEnv reads the environment then)
	DefPanic string
	DefHang  bool
}

type ctxKey struct{}

// failingWriter records what is written and reports a failure for every Write.
type failingWriter struct{ rec *bytes.Buffer }

func (w failingWriter) Write(b []byte) (int, error) {
	w.rec.Write(b)
	return 0, errors.New("write failed: broken pipe")
}

// Build constructs the real program for def with the given environment variables set.
func Build(def *Def, env map[string]string) *Prog {
	p := &Prog{Def: def, W: &bytes.Buffer{}, Comp: &bytes.Buffer{}}
	setEnv := func() {
		for k, v := range env {
			os.Setenv(k, v)
			p.envSet = append(p.envSet, k)
		}
	}
	if !def.LateEnv {
		setEnv()
	}
	getoptions.Writer = p.W
	if def.WriterFails {
		getoptions.Writer = failingWriter{p.W}
	}
	getoptions.VerifSetCompletionWriter(p.Comp)
	if def.CompWriterFails {
		getoptions.VerifSetCompletionWriter(failingWriter{p.Comp})
	}
	getoptions.VerifSetExit(func(code int) { p.Exits = append(p.Exits, code) })
	p.ctx = context.WithValue(context.Background(), ctxKey{}, p)
	verifrt.SetTickBudget(tickBudget)
	defer verifrt.SetTickBudget(0)
	p.DefPanic, p.DefHang = guard(func() { p.declare(def, setEnv) })
	return p
}

func (p *Prog) declare(def *Def, setEnv func()) {
	opt := getoptions.New()
	if def.LateEnv {
		setEnv()
	}
	opt.Self(def.Root.Name, def.Root.Desc)
	if !def.LateMode {
		opt.SetMode(getoptions.Mode(def.Mode))
	}
	opt.SetUnknownMode(getoptions.UnknownMode(def.Unknown))
	if def.RequireOrder {
		opt.SetRequireOrder()
	}
	if def.MapLower {
		opt.SetMapKeysToLower()
	}
	p.Root = &level{def: &def.Root, opt: opt}
	p.build(p.Root)
	for _, l := range p.Levels {
		for _, h := range l.opts {
			if len(h.def.PreValue) > 0 {
				_ = l.opt.SetValue(h.def.Name, h.def.PreValue...)
			}
		}
	}
	if def.LateMode {
		opt.SetMode(getoptions.Mode(def.Mode))
	}
	if def.Help != "" {
		var fns []getoptions.ModifyFn
		if len(def.HelpAliases) > 0 {
			fns = append(fns, opt.Alias(def.HelpAliases...))
		}
		opt.HelpCommand(def.Help, fns...)
	}
}

// Reset forgets what the harness recorded so far (CommandFn calls, Writer, exits), so that a further
// Parse/Dispatch round on the same program object can be observed on its own.
func (p *Prog) Reset() {
	p.Calls = nil
	p.Exits = nil
	p.W.Reset()
	p.Comp.Reset()
}

// CancelCtx makes the context handed to Dispatch one that is already cancelled.
func (p *Prog) CancelCtx() {
	ctx, cancel := context.WithCancel(p.ctx)
	cancel()
	p.ctx = ctx
}

// Close removes the environment variables set by Build.
func (p *Prog) Close() {
	for _, k := range p.envSet {
		os.Unsetenv(k)
	}
}

func (p *Prog) build(l *level) {
	p.Levels = append(p.Levels, l)
	opt := l.opt
	d := l.def
	if l.parent != nil {
		if d.Unset {
			opt.UnsetOptions()
		}
		if d.Unknown > 0 {
			opt.SetUnknownMode(getoptions.UnknownMode(d.Unknown - 1))
		}
		if d.RequireOrder {
			opt.SetRequireOrder()
		}
		if !d.NoFn {
			path := l.path
			opt.SetCommandFn(func(ctx context.Context, o *getoptions.GetOpt, args []string) error {
				p.record(l, path, ctx, o, args)
				return nil
			})
		}
	} else if !d.NoFn {
		opt.SetCommandFn(func(ctx context.Context, o *getoptions.GetOpt, args []string) error {
			p.record(l, "", ctx, o, args)
			return nil
		})
	}
	if len(d.ArgCompl) > 0 {
		opt.ArgCompletions(d.ArgCompl...)
	}
	if d.ArgFn {
		// two functions registered with one call: every one of them must contribute
		opt.ArgCompletionsFns(func(target string, prev []string, partial string) []string {
			p.Fns++
			return []string{"dyn-" + d.Name + "-1"}
		}, func(target string, prev []string, partial string) []string {
			p.Fns++
			return []string{"dyn-" + d.Name + "-2"}
		})
	}
	if d.ArgFnSlow {
		opt.ArgCompletionsFns(func(target string, prev []string, partial string) []string {
			p.Fns++
			time.Sleep(SlowFnDelay)
			return []string{"slow-" + d.Name + "-1"}
		})
	}
	for _, a := range d.SynArgs {
		opt.HelpSynopsisArg(a[0], a[1])
	}
	for i := range d.Opts {
		l.opts = append(l.opts, declare(opt, &d.Opts[i], l.path, p))
		if p.Def.EarlyHelp {
			_ = opt.Help()
			_ = p.Root.opt.Help(getoptions.HelpSynopsis)
		}
	}
	for _, cd := range d.Cmds {
		child := &level{def: cd, parent: l, opt: opt.NewCommand(cd.Name, cd.Desc)}
		if cd.SelfDesc {
			child.opt.Self("", "long description of "+cd.Name)
		}
		if l.path == "" {
			child.path = cd.Name
		} else {
			child.path = l.path + "/" + cd.Name
		}
		l.kids = append(l.kids, child)
		p.build(child)
		if p.Def.EarlyHelp {
			_ = opt.Help()
			_ = child.opt.Help()
		}
	}
}

func declare(opt *getoptions.GetOpt, o *OptDef, path string, p *Prog) *optHandle {
	h := &optHandle{def: o, path: path + "/" + o.Name}
	var fns []getoptions.ModifyFn
	if len(o.Aliases) > 0 {
		if o.SplitAlias {
			for _, a := range o.Aliases {
				fns = append(fns, opt.Alias(a))
			}
		} else {
			fns = append(fns, opt.Alias(o.Aliases...))
		}
	}
	if o.Required {
		if o.ReqMsg != "" {
			fns = append(fns, opt.Required(o.ReqMsg))
		} else {
			fns = append(fns, opt.Required())
		}
	}
	if o.Env != "" {
		fns = append(fns, opt.GetEnv(o.Env))
	}
	if o.SetCalled {
		fns = append(fns, opt.SetCalled(true))
	}
	if len(o.Suggested) > 0 {
		fns = append(fns, opt.SuggestedValues(o.Suggested...))
	}
	if len(o.Valid) > 0 {
		fns = append(fns, opt.ValidValues(o.Valid...))
	}
	if o.SuggestFn {
		name := o.Name
		fns = append(fns, opt.SuggestedValuesFn(func(target, partial string) []string {
			p.Fns++
			return []string{"fn-" + name + "-x", "fn-" + name + "-y"}
		}))
	}
	if o.Desc != "" {
		fns = append(fns, opt.Description(o.Desc))
	}
	if o.ArgName != "" {
		fns = append(fns, opt.ArgName(o.ArgName))
	}
	switch o.Kind {
	case Bool:
		if o.Var {
			h.pb = new(bool)
			opt.BoolVar(h.pb, o.Name, o.DefB, fns...)
		} else {
			h.pb = opt.Bool(o.Name, o.DefB, fns...)
		}
	case Incr:
		if o.Var {
			h.pi = new(int)
			opt.IncrementVar(h.pi, o.Name, o.DefI, fns...)
		} else {
			h.pi = opt.Increment(o.Name, o.DefI, fns...)
		}
	case Str:
		if o.Var {
			h.ps = new(string)
			opt.StringVar(h.ps, o.Name, o.DefS, fns...)
		} else {
			h.ps = opt.String(o.Name, o.DefS, fns...)
		}
	case StrOpt:
		if o.Var {
			h.ps = new(string)
			opt.StringVarOptional(h.ps, o.Name, o.DefS, fns...)
		} else {
			h.ps = opt.StringOptional(o.Name, o.DefS, fns...)
		}
	case Int:
		if o.Var {
			h.pi = new(int)
			opt.IntVar(h.pi, o.Name, o.DefI, fns...)
		} else {
			h.pi = opt.Int(o.Name, o.DefI, fns...)
		}
	case IntOpt:
		if o.Var {
			h.pi = new(int)
			opt.IntVarOptional(h.pi, o.Name, o.DefI, fns...)
		} else {
			h.pi = opt.IntOptional(o.Name, o.DefI, fns...)
		}
	case Flt:
		if o.Var {
			h.pf = new(float64)
			opt.Float64Var(h.pf, o.Name, o.DefF, fns...)
		} else {
			h.pf = opt.Float64(o.Name, o.DefF, fns...)
		}
	case FltOpt:
		if o.Var {
			h.pf = new(float64)
			opt.Float64VarOptional(h.pf, o.Name, o.DefF, fns...)
		} else {
			h.pf = opt.Float64Optional(o.Name, o.DefF, fns...)
		}
	case StrS:
		if o.Var {
			h.pss = new([]string)
			opt.StringSliceVar(h.pss, o.Name, o.Min, o.Max, fns...)
		} else {
			h.pss = opt.StringSlice(o.Name, o.Min, o.Max, fns...)
		}
	case IntS:
		if o.Var {
			h.pis = new([]int)
			opt.IntSliceVar(h.pis, o.Name, o.Min, o.Max, fns...)
		} else {
			h.pis = opt.IntSlice(o.Name, o.Min, o.Max, fns...)
		}
	case FltS:
		if o.Var {
			h.pfs = new([]float64)
			opt.Float64SliceVar(h.pfs, o.Name, o.Min, o.Max, fns...)
		} else {
			h.pfs = opt.Float64Slice(o.Name, o.Min, o.Max, fns...)
		}
	case Map:
		if o.Var {
			h.pmv = new(map[string]string)
			if len(o.Preset) > 0 {
				*h.pmv = map[string]string{}
				for _, kv := range o.Preset {
					(*h.pmv)[kv[0]] = kv[1]
				}
			}
			opt.StringMapVar(h.pmv, o.Name, o.Min, o.Max, fns...)
		} else {
			h.pm = opt.StringMap(o.Name, o.Min, o.Max, fns...)
			for _, kv := range o.Preset {
				h.pm[kv[0]] = kv[1]
			}
		}
	}
	return h
}

// visible lists the handles of the options visible at level l (own, then inherited unless a wrapper intervenes).
func (l *level) visible() []*optHandle {
	var out []*optHandle
	out = append(out, l.opts...)
	for cur := l; cur.parent != nil && !cur.def.Unset; cur = cur.parent {
		out = append(out, cur.parent.opts...)
	}
	return out
}

func (p *Prog) record(l *level, path string, ctx context.Context, o *getoptions.GetOpt, args []string) {
	rec := CallRec{Path: path, Args: append([]string(nil), args...), ArgsNil: args == nil, Vals: map[string]string{}, Called: map[string]bool{}}
	rec.CtxOK = ctx != nil && ctx == p.ctx // the caller's context itself, not one derived from it
	if n := l.def.ReqArgs; n > 0 {
		rest := args
		for i := 0; i < n; i++ {
			var v string
			var err error
			v, rest, err = o.GetRequiredArg(rest, getoptions.HelpNone)
			rec.ReqArgs = append(rec.ReqArgs, v)
			rec.ReqArgErrs = append(rec.ReqArgErrs, err != nil)
		}
	}
	for _, h := range l.visible() {
		rec.Vals[h.path] = renderAny(o.Value(h.def.Name))
		rec.Called[h.path] = o.Called(h.def.Name)
	}
	p.Calls = append(p.Calls, rec)
}

// ---------------------------------------------------------------------------
// running

// Outcome is everything observable from one Parse (+ Dispatch).
type Outcome struct {
	Panic     string
	Hang      bool
	ParseErr  string
	HasErr    bool
	IsParsing bool
	Remaining []string
	RemNil    bool
	Vals      map[string]string // pointer / *Var target per option path
	ValsAPI   map[string]string // Value(name) at the defining level
	Called    map[string]bool
	CalledAs  map[string]string
	Warnings  string

	Dispatched bool
	DErr       string
	DHasErr    bool
	DIsHelp    bool
	DIsParsing bool
	Calls      []CallRec
	WDispatch  string
	HelpText   string
}

const tickBudget = 1000000

func guard(f func()) (panicked string, hang bool) {
	defer func() {
		if r := recover(); r != nil {
			if _, ok := r.(verifrt.TickOverflow); ok {
				hang = true
				return
			}
			panicked = fmt.Sprint(r)
		}
	}()
	verifrt.ResetTicks()
	f()
	return
}

// Run executes Parse (and Dispatch when dispatch is set and Parse succeeded).
func (p *Prog) Run(argv []string, dispatch bool) *Outcome {
	o := &Outcome{}
	if p.DefPanic != "" || p.DefHang {
		o.Panic, o.Hang = p.DefPanic, p.DefHang
		if o.Panic != "" {
			o.Panic = "while the program was being declared: " + o.Panic
		}
		return o
	}
	// loop budget: generous for ordinary inputs, and growing with the square of the input size so that
	// work that is merely quadratic in a 10^4-byte token is not mistaken for a hang
	n := int64(len(os.Getenv("COMP_LINE")))
	for _, a := range argv {
		n += int64(len(a))
	}
	verifrt.SetTickBudget(2*tickBudget + 4*n*n)
	defer verifrt.SetTickBudget(0)
	var rem []string
	var err error
	o.Panic, o.Hang = guard(func() { rem, err = p.Root.opt.Parse(argv) })
	if o.Panic != "" || o.Hang {
		return o
	}
	if err != nil {
		o.HasErr = true
		o.ParseErr = err.Error()
		o.IsParsing = errors.Is(err, getoptions.ErrorParsing)
	}
	o.Remaining = rem
	o.RemNil = rem == nil
	o.Warnings = p.W.String()
	p.observe(o)
	if dispatch && err == nil {
		p.W.Reset()
		o.Dispatched = true
		var derr error
		o.Panic, o.Hang = guard(func() { derr = p.Root.opt.Dispatch(p.ctx, rem) })
		if derr != nil {
			o.DHasErr = true
			o.DErr = derr.Error()
			o.DIsHelp = errors.Is(derr, getoptions.ErrorHelpCalled)
			o.DIsParsing = errors.Is(derr, getoptions.ErrorParsing)
		}
		o.Calls = p.Calls
		o.WDispatch = p.W.String()
	}
	return o
}

func (p *Prog) observe(o *Outcome) {
	o.Vals = map[string]string{}
	o.ValsAPI = map[string]string{}
	o.Called = map[string]bool{}
	o.CalledAs = map[string]string{}
	for _, l := range p.Levels {
		for _, h := range l.opts {
			o.Vals[h.path] = h.ptrValue()
			o.ValsAPI[h.path] = renderAny(l.opt.Value(h.def.Name))
			o.Called[h.path] = l.opt.Called(h.def.Name)
			o.CalledAs[h.path] = l.opt.CalledAs(h.def.Name)
		}
	}
	if h := p.Def.Help; h != "" {
		// the help option declared by HelpCommand at the root (C06 speaks about every option, this one included)
		o.Vals["/"+h] = renderAny(p.Root.opt.Value(h))
		o.ValsAPI["/"+h] = o.Vals["/"+h]
		o.Called["/"+h] = p.Root.opt.Called(h)
		o.CalledAs["/"+h] = p.Root.opt.CalledAs(h)
	}
}

// Help returns Help() of the root object (after Parse: of the selected level).
func (p *Prog) Help() (text string, panicked string, hang bool) {
	verifrt.SetTickBudget(tickBudget)
	defer verifrt.SetTickBudget(0)
	panicked, hang = guard(func() { text = p.Root.opt.Help() })
	return
}

// LevelHelp returns Help() of the GetOpt object of the level with the given path.
func (p *Prog) LevelHelp(path string) string {
	for _, l := range p.Levels {
		if l.path == path {
			return l.opt.Help()
		}
	}
	return ""
}

// LevelHelpSections returns Help(sections...) of the GetOpt object of the level with the given path.
func (p *Prog) LevelHelpSections(path string, sections ...getoptions.HelpSection) string {
	for _, l := range p.Levels {
		if l.path == path {
			return l.opt.Help(sections...)
		}
	}
	return ""
}

// Opt returns the root GetOpt.
func (p *Prog) Opt() *getoptions.GetOpt { return p.Root.opt }

// HelpOf returns the help text of the level with the given path on a freshly built program
// (Help() of the GetOpt object that declares the level, before any Parse).
func HelpOf(def *Def, env map[string]string, path string) string {
	p := Build(def, env)
	defer p.Close()
	return p.LevelHelp(path)
}

// FindLevel returns the command definition at path ("" = root) and whether an UnsetOptions
// wrapper cuts the inheritance on the way; nil if the path names the built-in help command.
func FindLevel(def *Def, path string) *CmdDef {
	cur := &def.Root
	if path == "" {
		return cur
	}
	for _, name := range strings.Split(path, "/") {
		var next *CmdDef
		for _, k := range cur.Cmds {
			if k.Name == name {
				next = k
			}
		}
		if next == nil {
			return nil
		}
		cur = next
	}
	return cur
}

// VisiblePaths lists the option paths visible at the level (own and inherited up to a wrapper).
func VisiblePaths(def *Def, path string) []string {
	var out []string
	var names []string
	if path != "" {
		names = strings.Split(path, "/")
	}
	// walk down, remembering the chain
	chain := []*CmdDef{&def.Root}
	paths := []string{""}
	cur := &def.Root
	p := ""
	for _, n := range names {
		for _, k := range cur.Cmds {
			if k.Name == n {
				cur = k
				if p == "" {
					p = n
				} else {
					p += "/" + n
				}
				chain = append(chain, k)
				paths = append(paths, p)
			}
		}
	}
	for i := len(chain) - 1; i >= 0; i-- {
		for _, o := range chain[i].Opts {
			out = append(out, paths[i]+"/"+o.Name)
		}
		if chain[i].Unset {
			break
		}
	}
	return out
}
