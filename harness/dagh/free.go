package dagh

import (
	"context"
	"errors"
	"fmt"
	"math/rand"
	"sort"
	"strings"
	"sync/atomic"
	"time"

	"github.com/DavidGamba/go-getoptions"
	"github.com/DavidGamba/go-getoptions/dag"
)

// FreeRun executes the scenario once with real goroutines, real channels and the real clock
// (the instrumented library runs in passthrough mode).  It is conformance evidence only:
//   - the same safety oracles judge the run,
//   - the coarse outcome must be one the controlled exploration also produced,
//   - built with -race, the deliberately unsynchronised dependency -> dependent variable makes a
//     missing happens-before edge in the library a race-detector report.
//
// The harness performs its unsynchronised read before any bookkeeping and its unsynchronised
// write after all bookkeeping, so its own atomics never order the two accesses.
type freeRun struct {
	sc       *Scenario
	m        *model
	data     []int // written by a task right before it returns, read by its dependents at entry: NOT synchronised
	serial   int   // read at entry and written at exit by every task in serial mode: NOT synchronised
	running  int32
	peak     int32
	perTask  []int32
	started  []int32
	exited   []int32
	results  [][]string
	findings chan string
	rnd      []*rand.Rand
}

// FreeObs is the coarse outcome vector compared with the explored set.
type FreeObs struct {
	Started  string
	ErrShape string
}

func (o FreeObs) Key() string { return o.Started + "|" + o.ErrShape }

// CoarseKey projects a controlled observation onto the same coarse vector.
func (o Obs) CoarseKey() string { return o.Started + "|" + o.ErrShape }

func FreeExecute(sc *Scenario, seed int64) ([]Finding, FreeObs) {
	dag.Logger = discardLogger
	n := sc.N
	r := &freeRun{sc: sc, m: declared(sc), data: make([]int, n), perTask: make([]int32, n), started: make([]int32, n), exited: make([]int32, n), findings: make(chan string, 64)}
	capacity := int32(1 << 30)
	switch sc.Mode {
	case "serial", "max1":
		capacity = 1
	case "max2":
		capacity = 2
	case "max3":
		capacity = 3
	}
	report := func(prop, format string, a ...any) {
		select {
		case r.findings <- prop + "\x00" + fmt.Sprintf(format, a...):
		default:
		}
	}
	sentinel := make([]error, n)
	tasks := make([]*dag.Task, n)
	attempts := make([]int32, n)
	for i := 0; i < n; i++ {
		i := i
		sentinel[i] = fmt.Errorf("task-%s-failed", tid(i))
		rnd := rand.New(rand.NewSource(seed*1000 + int64(i)))
		tasks[i] = dag.NewTask(tid(i), func(ctx context.Context, opt *getoptions.GetOpt, args []string) error {
			// ---- unsynchronised reads first
			sum := 0
			for _, d := range r.m.tdeps(i) {
				sum += r.data[d]
			}
			ser := 0
			if sc.Mode == "serial" {
				ser = r.serial
			}
			// ---- bookkeeping (atomics)
			att := atomic.AddInt32(&attempts[i], 1) - 1
			if atomic.AddInt32(&r.perTask[i], 1) > 1 {
				report("C15", "task %s is executing twice at the same time", tid(i))
			}
			cur := atomic.AddInt32(&r.running, 1)
			for {
				p := atomic.LoadInt32(&r.peak)
				if cur <= p || atomic.CompareAndSwapInt32(&r.peak, p, cur) {
					break
				}
			}
			if cur > capacity {
				report("C15", "%d task functions executing at once, limit is %d (mode %s)", cur, capacity, sc.Mode)
			}
			atomic.AddInt32(&r.started[i], 1)
			for _, d := range r.m.tdeps(i) {
				if atomic.LoadInt32(&r.exited[d]) == 0 {
					report("C13", "task %s entered before its dependency %s had finished", tid(i), tid(d))
				}
			}
			_ = sum
			time.Sleep(time.Duration(rnd.Intn(300)) * time.Microsecond)
			res := "ok"
			if s := sc.Scripts[i]; len(s) > 0 {
				if int(att) < len(s) {
					res = s[att]
				} else {
					res = s[len(s)-1]
				}
			}
			atomic.AddInt32(&r.running, -1)
			atomic.AddInt32(&r.perTask[i], -1)
			if res == "ok" {
				atomic.AddInt32(&r.exited[i], 1)
			}
			// ---- unsynchronised writes last
			if sc.Mode == "serial" {
				r.serial = ser + 1
			}
			r.data[i] = int(att) + 1
			switch res {
			case "ok":
				return nil
			case "skip":
				return dag.ErrorSkipParents
			}
			return sentinel[i]
		})
	}
	g := dag.NewGraph("g")
	g.TickerDuration = 50 * time.Microsecond
	switch sc.Mode {
	case "serial":
		g.SetSerial()
	case "max1":
		g.SetMaxParallel(1)
	case "max2":
		g.SetMaxParallel(2)
	case "max3":
		g.SetMaxParallel(3)
	}
	for _, c := range sc.Hist {
		switch c.Op {
		case "add":
			g.AddTask(tasks[c.A])
		case "dep":
			g.TaskDependsOn(tasks[c.A], tasks[c.B])
		case "retries":
			g.TaskRetries(tasks[c.A], c.B)
		}
	}
	done := make(chan error, 1)
	go func() { done <- g.Run(context.Background(), nil, nil) }()
	var err error
	select {
	case err = <-done:
	case <-time.After(20 * time.Second):
		// no verdict from the clock: the exploration decides termination; just give up on this run
		return nil, FreeObs{Started: "timeout"}
	}
	var fs []Finding
	close(r.findings)
	for f := range r.findings {
		parts := strings.SplitN(f, "\x00", 2)
		fs = append(fs, Finding{Prop: parts[0], Msg: parts[1]})
	}
	var st []string
	for t := 0; t < n; t++ {
		if atomic.LoadInt32(&r.started[t]) > 0 {
			st = append(st, tid(t))
		}
	}
	obs := FreeObs{Started: strings.Join(st, "")}
	var errs *dag.Errors
	switch {
	case err == nil:
		obs.ErrShape = "nil"
	case errors.As(err, &errs):
		var parts []string
		for _, e := range errs.Errors {
			switch {
			case errors.Is(e, dag.ErrorTaskSkipped):
				parts = append(parts, "skipped")
			default:
				matched := false
				for t := range sentinel {
					if errors.Is(e, sentinel[t]) {
						parts = append(parts, "fail-"+tid(t))
						matched = true
					}
				}
				if !matched {
					parts = append(parts, "other")
				}
			}
		}
		sort.Strings(parts)
		obs.ErrShape = strings.Join(parts, ",")
	default:
		obs.ErrShape = "err:" + err.Error()
	}
	return fs, obs
}
