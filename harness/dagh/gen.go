package dagh

import "sort"

// AllDAGs returns every labelled DAG on n vertices as edge lists (task, dependency).
func AllDAGs(n int) [][][2]int {
	var pairs [][2]int
	for i := 0; i < n; i++ {
		for j := 0; j < n; j++ {
			if i != j {
				pairs = append(pairs, [2]int{i, j})
			}
		}
	}
	var out [][][2]int
	for mask := 0; mask < 1<<len(pairs); mask++ {
		var es [][2]int
		for b, p := range pairs {
			if mask&(1<<b) != 0 {
				es = append(es, p)
			}
		}
		if acyclic(n, es) {
			out = append(out, es)
		}
	}
	return out
}

func acyclic(n int, es [][2]int) bool {
	adj := make([][]int, n)
	for _, e := range es {
		adj[e[0]] = append(adj[e[0]], e[1])
	}
	col := make([]int, n)
	var visit func(int) bool
	visit = func(v int) bool {
		col[v] = 1
		for _, d := range adj[v] {
			if col[d] == 1 {
				return false
			}
			if col[d] == 0 && !visit(d) {
				return false
			}
		}
		col[v] = 2
		return true
	}
	for v := 0; v < n; v++ {
		if col[v] == 0 && !visit(v) {
			return false
		}
	}
	return true
}

// UnlabelledDAGs returns one representative per isomorphism class.
func UnlabelledDAGs(n int) [][][2]int {
	seen := map[string]bool{}
	var out [][][2]int
	perms := permutations(n)
	for _, es := range AllDAGs(n) {
		best := ""
		for _, p := range perms {
			var m [][2]int
			for _, e := range es {
				m = append(m, [2]int{p[e[0]], p[e[1]]})
			}
			sort.Slice(m, func(i, j int) bool {
				if m[i][0] != m[j][0] {
					return m[i][0] < m[j][0]
				}
				return m[i][1] < m[j][1]
			})
			k := ""
			for _, e := range m {
				k += string(rune('0'+e[0])) + string(rune('0'+e[1])) + ","
			}
			if best == "" || k < best {
				best = k
			}
		}
		if best == "" {
			best = "-"
		}
		if !seen[best] {
			seen[best] = true
			out = append(out, es)
		}
	}
	return out
}

func permutations(n int) [][]int {
	var out [][]int
	p := make([]int, n)
	for i := range p {
		p[i] = i
	}
	var rec func(int)
	rec = func(k int) {
		if k == n {
			out = append(out, append([]int(nil), p...))
			return
		}
		for i := k; i < n; i++ {
			p[k], p[i] = p[i], p[k]
			rec(k + 1)
			p[k], p[i] = p[i], p[k]
		}
	}
	rec(0)
	return out
}

// product of result assignments over the alphabet, one result per task.
func assignments(n int, alpha []string) [][][]string {
	var out [][][]string
	cur := make([][]string, n)
	var rec func(int)
	rec = func(i int) {
		if i == n {
			out = append(out, append([][]string(nil), cur...))
			return
		}
		for _, a := range alpha {
			cur[i] = []string{a}
			rec(i + 1)
		}
	}
	rec(0)
	return out
}

// relevant reports whether the assignment is in canonical form: a task that can never run
// (it sits above a failing or skipping task) carries "ok", so that equivalent scenarios are not repeated.
func relevant(n int, es [][2]int, scripts [][]string) bool {
	m := &model{n: n, deps: make([][]int, n)}
	for _, e := range es {
		m.deps[e[0]] = append(m.deps[e[0]], e[1])
	}
	for t := 0; t < n; t++ {
		blocked := false
		for d := range m.closure(t) {
			if last := scripts[d][len(scripts[d])-1]; last != "ok" {
				blocked = true
			}
		}
		if blocked && !(len(scripts[t]) == 1 && scripts[t][0] == "ok") {
			return false
		}
	}
	return true
}

// Family builds the scenario list of a named family; the order is deterministic.
func Family(name string, tier string) []*Scenario {
	var out []*Scenario
	thorough := tier == "thorough"
	modes := []string{"par", "max1", "max2", "serial"}
	switch name {
	case "C13":
		maxN := 3
		for n := 1; n <= maxN; n++ {
			for _, es := range AllDAGs(n) {
				for _, scr := range assignments(n, []string{"ok", "err", "skip"}) {
					if !relevant(n, es, scr) {
						continue
					}
					for _, mode := range modes {
						out = append(out, GraphScenario(n, es, scr, nil, mode))
					}
				}
				// retry scripts on one designated vertex (every vertex in turn)
				for v := 0; v < n; v++ {
					for _, rs := range []struct {
						r int
						s []string
					}{{1, []string{"err", "ok"}}, {1, []string{"err", "err"}}, {2, []string{"err", "err", "ok"}}, {1, []string{"ok"}}} {
						if rs.r == 2 && n == 3 && !thorough {
							continue
						}
						scr := make([][]string, n)
						for i := range scr {
							scr[i] = []string{"ok"}
						}
						scr[v] = rs.s
						ret := make([]int, n)
						ret[v] = rs.r
						for _, mode := range []string{"par", "serial"} {
							out = append(out, GraphScenario(n, es, scr, ret, mode))
						}
					}
				}
			}
		}
		if thorough {
			for _, es := range UnlabelledDAGs(4) {
				for _, mode := range []string{"par", "max2", "serial"} {
					scr := [][]string{{"ok"}, {"ok"}, {"ok"}, {"ok"}}
					out = append(out, GraphScenario(4, es, scr, nil, mode))
				}
			}
		}
		out = append(out, fourVertexSingleFault(thorough)...)
		out = append(out, fiveVertexFaults(thorough)...)
		out = append(out, bufferedFaults(thorough)...)
		out = append(out, retryWithOtherFault(thorough)...)
		out = append(out, ownContextError(thorough)...)
		out = append(out, runThenExtend(thorough)...)
		out = append(out, taskPanics(thorough)...)
		out = append(out, readdAfterDeps(thorough)...)
		out = append(out, unboundedRetries(thorough)...)
		out = append(out, wrappedSkip(thorough)...)
		out = append(out, errorsValueResults(thorough)...)
		out = append(out, implicitVertices(thorough)...)
	case "C14":
		out = append(out, fourVertexSingleFault(thorough)...)
		out = append(out, fiveVertexFaults(thorough)...)
		out = append(out, bufferedFaults(thorough)...)
		out = append(out, retryWithOtherFault(thorough)...)
		out = append(out, ownContextError(thorough)...)
		out = append(out, runThenExtend(thorough)...)
		out = append(out, readdAfterDeps(thorough)...)
		out = append(out, skipUnderLimit(thorough)...)
		out = append(out, wrappedSkip(thorough)...)
		out = append(out, percentIDs(thorough)...)
		out = append(out, contextWrappingErrors(thorough)...)
		out = append(out, errorsValueResults(thorough)...)
		out = append(out, implicitVertices(thorough)...)
		out = append(out, sentinelWrappingErrors(thorough)...)
		for n := 1; n <= 3; n++ {
			for _, es := range AllDAGs(n) {
				for _, scr := range assignments(n, []string{"ok", "err", "skip"}) {
					if !relevant(n, es, scr) {
						continue
					}
					allOK := true
					for _, s := range scr {
						if s[0] != "ok" {
							allOK = false
						}
					}
					for _, mode := range []string{"par", "max1", "serial"} {
						if !allOK {
							out = append(out, GraphScenario(n, es, scr, nil, mode))
						}
						// cancellation at every point
						if allOK || n <= 2 || thorough {
							sc := GraphScenario(n, es, scr, nil, mode)
							sc.Cancel = true
							out = append(out, sc)
						}
					}
				}
			}
		}
		if thorough {
			for _, es := range UnlabelledDAGs(4) {
				for _, scr := range assignments(4, []string{"ok", "err", "skip"}) {
					if !relevant(4, es, scr) {
						continue
					}
					nbad := 0
					for _, s := range scr {
						if s[0] != "ok" {
							nbad++
						}
					}
					if nbad == 0 || nbad > 2 {
						continue
					}
					out = append(out, GraphScenario(4, es, scr, nil, "par"))
				}
			}
		}
	case "C15":
		out = append(out, sharedOutputWriter(thorough)...)
		for n := 2; n <= 4; n++ {
			var graphs [][][2]int
			if n <= 3 {
				graphs = AllDAGs(n)
			} else {
				graphs = UnlabelledDAGs(n)
			}
			for _, es := range graphs {
				if n == 4 && len(es) > 2 && !thorough {
					continue
				}
				scr := make([][]string, n)
				for i := range scr {
					scr[i] = []string{"ok"}
				}
				for _, mode := range []string{"max1", "max2", "max3", "serial"} {
					if mode == "max3" && n < 4 {
						continue
					}
					out = append(out, GraphScenario(n, es, scr, nil, mode))
				}
				if n <= 3 {
					// buffered output
					sc := GraphScenario(n, es, scr, nil, "par")
					sc.Buffer = true
					out = append(out, sc)
					// buffered output with a retry
					if len(es) == 0 {
						scr2 := make([][]string, n)
						for i := range scr2 {
							scr2[i] = []string{"ok"}
						}
						scr2[0] = []string{"err", "ok"}
						ret := make([]int, n)
						ret[0] = 1
						sc2 := GraphScenario(n, es, scr2, ret, "par")
						sc2.Buffer = true
						out = append(out, sc2)
					}
				}
			}
		}
		// two graphs running concurrently that share tasks
		for n := 1; n <= 3; n++ {
			for _, es := range AllDAGs(n) {
				if n == 3 && len(es) > 1 && !thorough {
					continue
				}
				scr := make([][]string, n)
				for i := range scr {
					scr[i] = []string{"ok"}
				}
				for s := 1; s <= 2 && s <= n; s++ {
					for _, mm := range [][2]string{{"par", "par"}, {"serial", "par"}, {"par", "serial"}, {"serial", "serial"}, {"max1", "par"}} {
						if n == 3 && mm[0] != "par" && len(es) > 0 && !thorough {
							continue
						}
						sc := GraphScenario(n, es, scr, nil, mm[0])
						sc.SharedMode = mm[1]
						for i := 0; i < s; i++ {
							sc.Shared = append(sc.Shared, i)
						}
						out = append(out, sc)
					}
				}
			}
		}
		out = append(out, readdedSharedTask(thorough)...)
		out = append(out, limitChangedBetweenRuns(thorough)...)
		out = append(out, skipUnderLimit(thorough)...)
		out = append(out, serialThenLimit(thorough)...)
		out = append(out, literalSharedTasks(thorough)...)
		out = append(out, sharedThroughAccessor(thorough)...)
		for _, sc := range retryWithOtherFault(thorough) {
			if sc.Mode == "max1" || sc.Mode == "max2" {
				out = append(out, sc)
			}
		}
		// a failing or skipping task must not loosen the bound
		for _, sc := range fourVertexSingleFault(thorough) {
			for _, mode := range []string{"serial", "max1", "max2"} {
				if mode == "max2" && !thorough {
					continue
				}
				c := *sc
				c.Mode = mode
				if !thorough {
					c.Light = 2 // default schedule, all completion orders
				}
				out = append(out, &c)
			}
		}
		for n := 2; n <= 3; n++ {
			for _, es := range AllDAGs(n) {
				for _, scr := range assignments(n, []string{"ok", "err", "skip"}) {
					if !relevant(n, es, scr) {
						continue
					}
					allOK := true
					for _, s := range scr {
						if s[0] != "ok" {
							allOK = false
						}
					}
					if allOK {
						continue
					}
					for _, mode := range []string{"serial", "max1"} {
						out = append(out, GraphScenario(n, es, scr, nil, mode))
					}
				}
			}
		}
		// very large task output with buffering
		for n := 2; n <= 3; n++ {
			scr := make([][]string, n)
			for i := range scr {
				scr[i] = []string{"ok"}
			}
			sc := GraphScenario(n, nil, scr, nil, "par")
			sc.Buffer = true
			sc.BigOutput = true
			sc.Light = 1 // each execution moves 160 KiB around: at most one deviation
			out = append(out, sc)
		}
		// cancellation while tasks wait for a slot
		for n := 2; n <= 3; n++ {
			for _, es := range AllDAGs(n) {
				if len(es) > 1 {
					continue
				}
				scr := make([][]string, n)
				for i := range scr {
					scr[i] = []string{"ok"}
				}
				for _, mode := range []string{"max1", "max2", "serial"} {
					if mode == "max2" && n < 3 {
						continue
					}
					sc := GraphScenario(n, es, scr, nil, mode)
					sc.Cancel = true
					out = append(out, sc)
				}
			}
		}
	case "C16":
		// (b) termination and work conservation on graphs
		for n := 1; n <= 3; n++ {
			for _, es := range AllDAGs(n) {
				for _, scr := range assignments(n, []string{"ok", "err", "skip"}) {
					if !relevant(n, es, scr) {
						continue
					}
					nbad := 0
					for _, s := range scr {
						if s[0] != "ok" {
							nbad++
						}
					}
					if nbad > 1 && !thorough {
						continue
					}
					for _, mode := range modes {
						sc := GraphScenario(n, es, scr, nil, mode)
						out = append(out, sc)
					}
				}
				if n <= 2 || thorough {
					scr := make([][]string, n)
					for i := range scr {
						scr[i] = []string{"ok"}
					}
					sc := GraphScenario(n, es, scr, nil, "par")
					sc.Cancel = true
					out = append(out, sc)
					sc2 := GraphScenario(n, es, scr, nil, "par")
					sc2.Rerun = true
					out = append(out, sc2)
				}
			}
		}
		for _, es := range UnlabelledDAGs(4) {
			scr := [][]string{{"ok"}, {"ok"}, {"ok"}, {"ok"}}
			for _, mode := range []string{"par", "max2", "serial"} {
				if mode != "par" && !thorough {
					continue
				}
				out = append(out, GraphScenario(4, es, scr, nil, mode))
			}
		}
		out = append(out, fiveVertexFaults(thorough)...)
		// two tasks returning ErrorSkipParents below common ancestors, with one slot: an unrelated task is still
		// waiting for the slot when the second round of skip reports comes in
		for _, sc := range fiveVertexFaults(thorough) {
			nskip := 0
			for _, scr := range sc.Scripts {
				if len(scr) > 0 && scr[0] == "skip" {
					nskip++
				}
			}
			if nskip >= 2 {
				c := *sc
				c.Mode = "max1"
				out = append(out, &c)
			}
		}
		out = append(out, doubleSkipSix(thorough)...)
		out = append(out, bufferedFaults(thorough)...)
		out = append(out, retryWithOtherFault(thorough)...)
		out = append(out, runThenExtend(thorough)...)
		out = append(out, sharedSaturated(thorough)...)
		out = append(out, readdAfterDeps(thorough)...)
		out = append(out, slotWaitCancel(thorough)...)
		out = append(out, tickerZero(thorough)...)
		out = append(out, validateThenRun(thorough)...)
		out = append(out, failingOutputWriter(thorough)...)
	case "C16sort":
		// (c) DepthFirstSort alone on every DAG shape with up to five vertices, and on the same shapes with one
		// extra edge that closes a cycle; explored over the rotations of its map ranges
		add := func(n int, es [][2]int) {
			sc := GraphScenario(n, es, make([][]string, n), nil, "par")
			sc.Hist = append(sc.Hist, Call{"sort", 0, 0})
			sc.SortOnly, sc.History = true, true
			out = append(out, sc)
		}
		for n := 1; n <= 4; n++ {
			for _, es := range AllDAGs(n) {
				add(n, es)
				if n <= 3 || thorough {
					// close a cycle with one back edge (for every edge)
					for _, e := range es {
						add(n, append(append([][2]int{}, es...), [2]int{e[1], e[0]}))
					}
				}
			}
		}
		for _, es := range shapes5 {
			add(5, es)
		}
	case "C16hist":
		// (a) construction histories
		depth := 4
		if thorough {
			depth = 5
		}
		alpha := []Call{
			{"add", 0, 0}, {"add", 1, 0}, {"add", 2, 0},
			{"dep", 0, 1}, {"dep", 1, 2}, {"dep", 0, 2}, {"dep", 1, 0}, {"dep", 0, 0},
			{"retries", 0, 1}, {"retries", 0, -1},
			{"sort", 0, 0}, {"run", 0, 0},
		}
		var rec func(h []Call)
		rec = func(h []Call) {
			if len(h) > 0 {
				sc := &Scenario{N: 3, Hist: append([]Call(nil), h...), Mode: "par", History: true}
				sc.Scripts = [][]string{{"ok"}, {"ok"}, {"ok"}}
				out = append(out, sc)
				hasRetries := false
				for _, c := range h {
					if c.Op == "retries" {
						hasRetries = true
					}
				}
				hasRun := false
				for _, c := range h[:len(h)-1] {
					if c.Op == "run" {
						hasRun = true
					}
				}
				if hasRetries || hasRun {
					// the same history with a task that always fails
					sc2 := &Scenario{N: 3, Hist: append([]Call(nil), h...), Mode: "par", History: true}
					sc2.Scripts = [][]string{{"err"}, {"ok"}, {"ok"}}
					out = append(out, sc2)
				}
				if hasRun {
					sc3 := &Scenario{N: 3, Hist: append([]Call(nil), h...), Mode: "par", History: true}
					sc3.Scripts = [][]string{{"ok"}, {"err"}, {"ok"}}
					out = append(out, sc3)
				}
			}
			if len(h) == depth {
				return
			}
			for _, c := range alpha {
				rec(append(h, c))
			}
		}
		rec(nil)
	}
	canon := map[string]bool{}
	for n := 1; n <= 4; n++ {
		for _, es := range UnlabelledDAGs(n) {
			canon[edgeKey(n, es)] = true
		}
	}
	for _, sc := range out {
		if sc.History {
			continue
		}
		var es [][2]int
		for _, c := range sc.Hist {
			if c.Op == "dep" {
				es = append(es, [2]int{c.A, c.B})
			}
		}
		sc.Canon = canon[edgeKey(sc.N, es)]
	}
	return out
}

func edgeKey(n int, es [][2]int) string {
	k := string(rune('0'+n)) + ":"
	for _, e := range es {
		k += string(rune('0'+e[0])) + string(rune('0'+e[1])) + ","
	}
	return k
}

// fourVertexSingleFault: every labelled DAG on four vertices with exactly one task that fails or
// returns ErrorSkipParents (canonical form: nothing above it carries a result).  Light scenarios.
func fourVertexSingleFault(thorough bool) []*Scenario {
	var out []*Scenario
	for _, es := range AllDAGs(4) {
		if len(es) < 1 {
			continue
		}
		for v := 0; v < 4; v++ {
			hasDependent := false
			for _, e := range es {
				if e[1] == v {
					hasDependent = true
				}
			}
			if !hasDependent {
				continue
			}
			for _, r := range []string{"skip", "err"} {
				scr := [][]string{{"ok"}, {"ok"}, {"ok"}, {"ok"}}
				scr[v] = []string{r}
				modes := []string{"par"}
				if thorough {
					modes = []string{"par", "serial", "max2"}
				}
				for _, mode := range modes {
					sc := GraphScenario(4, es, scr, nil, mode)
					sc.Light = 1
					out = append(out, sc)
				}
			}
		}
	}
	return out
}

// fiveVertexFaults: every DAG shape on five vertices with at most two tasks that fail or return
// ErrorSkipParents (canonical form).  Explored under the default schedule with all completion orders.
func fiveVertexFaults(thorough bool) []*Scenario {
	var out []*Scenario
	res := []string{"skip", "err"}
	for _, es := range shapes5 {
		if len(es) < 2 {
			continue
		}
		add := func(scr [][]string) {
			if !relevant(5, es, scr) {
				return
			}
			sc := GraphScenario(5, es, scr, nil, "par")
			sc.Light = 2
			if thorough {
				sc.Light = 1
			}
			out = append(out, sc)
		}
		base := func() [][]string { return [][]string{{"ok"}, {"ok"}, {"ok"}, {"ok"}, {"ok"}} }
		for v := 0; v < 5; v++ {
			for _, r := range res {
				scr := base()
				scr[v] = []string{r}
				add(scr)
				for w := v + 1; w < 5; w++ {
					for _, r2 := range res {
						scr2 := base()
						scr2[v] = []string{r}
						scr2[w] = []string{r2}
						add(scr2)
					}
				}
			}
		}
	}
	return out
}

// bufferedFaults: output buffering switched on together with failing / skipping / retried tasks.
func bufferedFaults(thorough bool) []*Scenario {
	var out []*Scenario
	for n := 1; n <= 3; n++ {
		for _, es := range AllDAGs(n) {
			for _, scr := range assignments(n, []string{"ok", "err", "skip"}) {
				if !relevant(n, es, scr) {
					continue
				}
				bad := 0
				for _, s := range scr {
					if s[0] != "ok" {
						bad++
					}
				}
				if bad != 1 {
					continue
				}
				for _, mode := range []string{"par", "serial"} {
					if mode == "serial" && n == 3 && !thorough {
						continue
					}
					sc := GraphScenario(n, es, scr, nil, mode)
					sc.Buffer = true
					out = append(out, sc)
				}
			}
			// a retried task with buffering
			if n <= 2 || len(es) <= 1 {
				scr := make([][]string, n)
				for i := range scr {
					scr[i] = []string{"ok"}
				}
				scr[n-1] = []string{"err", "ok"}
				ret := make([]int, n)
				ret[n-1] = 1
				sc := GraphScenario(n, es, scr, ret, "par")
				sc.Buffer = true
				out = append(out, sc)
			}
		}
	}
	return out
}

// retryWithOtherFault: a task with retries next to another task that fails (or returns its own context error, or
// skips) - the second failure can be recorded between two attempts of the first; also with cancellation.
func retryWithOtherFault(thorough bool) []*Scenario {
	var out []*Scenario
	for n := 2; n <= 3; n++ {
		for _, es := range AllDAGs(n) {
			if len(es) > 1 || (n == 3 && len(es) > 0 && !thorough) {
				continue
			}
			for _, rs := range [][]string{{"err", "err"}, {"err", "ok"}} {
				for _, other := range []string{"err", "skip"} {
					for v := 0; v < 2; v++ {
						u := 1 - v
						dependent := false
						for _, e := range es {
							if (e[0] == v && e[1] == u) || (e[0] == u && e[1] == v) {
								dependent = true
							}
						}
						if dependent {
							continue
						}
						scr := make([][]string, n)
						for i := range scr {
							scr[i] = []string{"ok"}
						}
						scr[v] = rs
						scr[u] = []string{other}
						ret := make([]int, n)
						ret[v] = 1
						for _, mode := range []string{"par", "max1", "max2"} {
							if mode == "max2" && n < 3 {
								continue
							}
							sc := GraphScenario(n, es, scr, ret, mode)
							if !thorough {
								sc.Light = 1
							}
							out = append(out, sc)
						}
					}
				}
			}
		}
	}
	// a retried task and a cancellation
	for n := 1; n <= 2; n++ {
		scr := make([][]string, n)
		for i := range scr {
			scr[i] = []string{"ok"}
		}
		scr[0] = []string{"err", "err"}
		ret := make([]int, n)
		ret[0] = 1
		sc := GraphScenario(n, nil, scr, ret, "par")
		sc.Cancel = true
		if !thorough {
			sc.Light = 1
		}
		out = append(out, sc)
	}
	return out
}

// ownContextError: one task fails with an error of its own that wraps context.DeadlineExceeded while the
// context given to Run is live (a task-local timeout): it is a failure like any other.
func ownContextError(thorough bool) []*Scenario {
	var out []*Scenario
	for n := 1; n <= 3; n++ {
		for _, es := range AllDAGs(n) {
			for v := 0; v < n; v++ {
				scr := make([][]string, n)
				for i := range scr {
					scr[i] = []string{"ok"}
				}
				scr[v] = []string{"cerr"}
				if !relevant(n, es, scr) {
					continue
				}
				sc := GraphScenario(n, es, scr, nil, "par")
				if !thorough {
					sc.Light = 1
				}
				out = append(out, sc)
				// with a retry that keeps failing the same way
				scr2 := make([][]string, n)
				copy(scr2, scr)
				scr2[v] = []string{"cerr", "cerr"}
				ret := make([]int, n)
				ret[v] = 1
				if n <= 2 || thorough {
					sc2 := GraphScenario(n, es, scr2, ret, "serial")
					if !thorough {
						sc2.Light = 1
					}
					out = append(out, sc2)
				}
			}
		}
	}
	return out
}

// runThenExtend: Run, then further construction calls, then Run again: new dependents of a task that failed,
// succeeded or was never started; new edges between known tasks (possibly closing a cycle); a sort in between.
func runThenExtend(thorough bool) []*Scenario {
	var out []*Scenario
	first := [][]Call{
		{{"add", 0, 0}},
		{{"add", 0, 0}, {"add", 1, 0}},
		{{"dep", 1, 0}},
		{{"add", 0, 0}, {"add", 1, 0}, {"add", 2, 0}},
	}
	second := [][]Call{
		{{"dep", 1, 0}},
		{{"dep", 2, 0}},
		{{"dep", 0, 1}},
		{{"add", 2, 0}},
		{{"dep", 1, 0}, {"dep", 0, 1}},
		{{"dep", 2, 1}, {"dep", 1, 0}},
		{{"sort", 0, 0}, {"dep", 0, 1}},
		{{"add", 0, 0}},
	}
	// (Not generated: a new, not yet run dependency declared for a task that has already run.  The task ran without
	// it; whether its dependents wait for the late dependency depends on the schedule at HEAD, so nothing is claimed.)
	for fi, f := range first {
		for si, s2 := range second {
			for _, a := range []string{"ok", "err"} {
				for _, opener := range []string{"run", "sort"} {
					if opener == "sort" && a == "err" {
						continue
					}
					var h []Call
					h = append(h, f...)
					h = append(h, Call{opener, 0, 0})
					h = append(h, s2...)
					for _, mode := range []string{"par", "serial"} {
						if mode == "serial" && !thorough && len(f) > 2 {
							continue
						}
						sc := &Scenario{N: 3, Hist: h, Mode: mode, History: true}
						sc.Scripts = [][]string{{a}, {"ok"}, {"ok"}}
						out = append(out, sc)
						// cancellation somewhere in the two runs: a few representatives (every cancellation point x every
						// schedule deviation of a two-run history is expensive)
						if a == "ok" && opener == "run" && mode == "par" && (thorough || (fi == 1 && (si == 0 || si == 4))) {
							scc := *sc
							scc.Cancel = true
							scc.Light = 1
							out = append(out, &scc)
						}
					}
				}
			}
		}
	}
	return out
}

// sharedSaturated: the first graph is bounded and busy with other tasks while the second graph, which has free
// capacity, holds a task they share.
func sharedSaturated(thorough bool) []*Scenario {
	var out []*Scenario
	for n := 2; n <= 3; n++ {
		scr := make([][]string, n)
		for i := range scr {
			scr[i] = []string{"ok"}
		}
		for _, mode := range []string{"max1", "serial", "max2"} {
			if mode == "max2" && n < 3 {
				continue
			}
			for s := 1; s < n; s++ {
				sc := GraphScenario(n, nil, scr, nil, mode)
				if !thorough {
					sc.Light = 1
				}
				sc.SharedMode = "par"
				for i := n - s; i < n; i++ {
					sc.Shared = append(sc.Shared, i)
				}
				out = append(out, sc)
			}
		}
	}
	return out
}

// readdedSharedTask: the first graph already knows an ID (AddTask, or a vertex created by TaskDependsOn) and is then
// given another Task object with the same ID, the one a second, concurrently running graph holds.
func readdedSharedTask(thorough bool) []*Scenario {
	var out []*Scenario
	hists := [][]Call{
		{{"add", 0, 0}, {"add2", 0, 0}},
		{{"add", 0, 0}, {"add", 1, 0}, {"add2", 0, 0}},
		{{"dep", 1, 0}, {"add2", 0, 0}},
		{{"dep", 0, 1}, {"add2", 0, 0}},
		{{"add2", 0, 0}, {"add", 1, 0}},
	}
	for _, h := range hists {
		for _, mm := range [][2]string{{"par", "par"}, {"serial", "par"}, {"max1", "serial"}} {
			sc := &Scenario{N: 2, Hist: h, Mode: mm[0], SharedMode: mm[1], Shared: []int{0}, Shared2: true, History: true}
			sc.Scripts = [][]string{{"ok"}, {"ok"}}
			out = append(out, sc)
		}
	}
	return out
}

// taskPanics: a task function panics.  Whatever the library makes of that, it has not returned nil: nothing that
// depends on it may start.
func taskPanics(thorough bool) []*Scenario {
	var out []*Scenario
	for n := 1; n <= 3; n++ {
		for _, es := range AllDAGs(n) {
			for v := 0; v < n; v++ {
				hasDependent := false
				for _, e := range es {
					if e[1] == v {
						hasDependent = true
					}
				}
				if !hasDependent && n > 1 {
					continue
				}
				scr := make([][]string, n)
				for i := range scr {
					scr[i] = []string{"ok"}
				}
				for _, how := range []string{"panic", "goexit"} {
					scr2 := make([][]string, n)
					copy(scr2, scr)
					scr2[v] = []string{how}
					for _, mode := range []string{"par", "serial"} {
						sc := GraphScenario(n, es, scr2, nil, mode)
						sc.Light = 1
						out = append(out, sc)
					}
				}
			}
		}
	}
	return out
}

// readdAfterDeps: a task is added again (same ID) after its dependencies were declared, and one of those
// dependencies succeeds, fails or returns ErrorSkipParents.
func readdAfterDeps(thorough bool) []*Scenario {
	var out []*Scenario
	hists := [][]Call{
		{{"dep", 0, 1}, {"add", 0, 0}},
		{{"add", 0, 0}, {"add", 1, 0}, {"dep", 0, 1}, {"add", 0, 0}},
		{{"dep", 0, 1}, {"dep", 0, 2}, {"add", 0, 0}},
		{{"dep", 0, 1}, {"add", 0, 0}, {"add", 1, 0}},
		{{"dep", 0, 1}, {"dep", 2, 0}, {"add", 0, 0}},
		{{"dep", 0, 1}, {"add2", 0, 0}},
	}
	for _, h := range hists {
		for _, b := range []string{"ok", "skip", "err"} {
			for _, mode := range []string{"par", "serial"} {
				sc := &Scenario{N: 3, Hist: h, Mode: mode, History: true, Light: 1}
				sc.Scripts = [][]string{{"ok"}, {b}, {"ok"}}
				out = append(out, sc)
			}
		}
	}
	return out
}

// limitChangedBetweenRuns: Run, then SetMaxParallel with a smaller limit and new tasks, then Run again: the second run
// obeys the limit in force when it starts.
func limitChangedBetweenRuns(thorough bool) []*Scenario {
	var out []*Scenario
	hists := [][]Call{
		{{"add", 0, 0}, {"run", 0, 0}, {"max", 1, 0}, {"add", 1, 0}, {"add", 2, 0}},
		{{"max", 2, 0}, {"add", 0, 0}, {"run", 0, 0}, {"max", 1, 0}, {"add", 1, 0}, {"add", 2, 0}},
		{{"max", 1, 0}, {"add", 0, 0}, {"add", 1, 0}},
	}
	for _, h := range hists {
		sc := &Scenario{N: 3, Hist: h, Mode: "par", History: true, Light: 1}
		sc.Scripts = [][]string{{"ok"}, {"ok"}, {"ok"}}
		out = append(out, sc)
	}
	return out
}

// skipUnderLimit: a task returns ErrorSkipParents under a limit while its ancestors are reported done without ever
// having held a slot and other tasks are running or waiting.
func skipUnderLimit(thorough bool) []*Scenario {
	var out []*Scenario
	for _, mode := range []string{"max2", "max1"} {
		for _, es := range [][][2]int{{{1, 0}}, {{1, 0}, {2, 1}}} {
			scr := [][]string{{"skip"}, {"ok"}, {"ok"}, {"ok"}, {"ok"}}
			sc := GraphScenario(5, es, scr, nil, mode)
			sc.Light = 2
			if thorough {
				sc.Light = 1
			}
			out = append(out, sc)
		}
	}
	return out
}

// slotWaitCancel: cancellation while handed-out tasks still wait for a slot.
func slotWaitCancel(thorough bool) []*Scenario {
	var out []*Scenario
	for n := 2; n <= 3; n++ {
		scr := make([][]string, n)
		for i := range scr {
			scr[i] = []string{"ok"}
		}
		for _, mode := range []string{"max1", "serial"} {
			sc := GraphScenario(n, nil, scr, nil, mode)
			sc.Cancel = true
			if n == 3 {
				sc.Light = 1
			}
			out = append(out, sc)
		}
	}
	return out
}

// doubleSkipSix: six vertices - q depends on a and b, which both return ErrorSkipParents; p depends on q (an ancestor
// two levels above the skipping tasks is handed out as skipped before q is, and again after the second skip); t
// depends on l, an unrelated branch that is still pending when the second round of skip reports comes in.
func doubleSkipSix(thorough bool) []*Scenario {
	var out []*Scenario
	// a=0 b=1 q=2 p=3 l=4 t=5
	es := [][2]int{{2, 0}, {2, 1}, {3, 2}, {5, 4}}
	for _, mode := range []string{"par", "max2", "serial"} {
		scr := [][]string{{"skip"}, {"skip"}, {"ok"}, {"ok"}, {"ok"}, {"ok"}}
		sc := GraphScenario(6, es, scr, nil, mode)
		sc.Light = 2
		out = append(out, sc)
	}
	return out
}

// unboundedRetries: a task with the largest possible retry budget ("retry until it works") below a dependent.
func unboundedRetries(thorough bool) []*Scenario {
	var out []*Scenario
	const maxInt = int(^uint(0) >> 1)
	for _, scr := range [][]string{{"ok"}, {"err", "err", "ok"}} {
		for _, mode := range []string{"par", "serial"} {
			sc := &Scenario{N: 2, Mode: mode, History: true, Light: 1,
				Hist: []Call{{"dep", 1, 0}, {"retries", 0, maxInt}}}
			sc.Scripts = [][]string{scr, {"ok"}}
			out = append(out, sc)
		}
	}
	return out
}

// wrappedSkip: ErrorSkipParents returned wrapped with context.
func wrappedSkip(thorough bool) []*Scenario {
	var out []*Scenario
	for n := 1; n <= 3; n++ {
		for _, es := range AllDAGs(n) {
			if n == 3 && len(es) > 2 && !thorough {
				continue
			}
			for v := 0; v < n; v++ {
				scr := make([][]string, n)
				for i := range scr {
					scr[i] = []string{"ok"}
				}
				scr[v] = []string{"wskip"}
				if !relevant(n, es, scr) {
					continue
				}
				sc := GraphScenario(n, es, scr, nil, "par")
				sc.Light = 1
				out = append(out, sc)
			}
		}
	}
	return out
}

// errorsValueResults: the failing task returns a *dag.Errors value (empty, or with one entry): an error like any other.
func errorsValueResults(thorough bool) []*Scenario {
	var out []*Scenario
	for n := 1; n <= 3; n++ {
		for _, es := range AllDAGs(n) {
			if n == 3 && !thorough {
				continue
			}
			for v := 0; v < n; v++ {
				for kind := 1; kind <= 2; kind++ {
					scr := make([][]string, n)
					for i := range scr {
						scr[i] = []string{"ok"}
					}
					scr[v] = []string{"err"}
					if !relevant(n, es, scr) {
						continue
					}
					sc := GraphScenario(n, es, scr, nil, "par")
					sc.ErrsKind = kind
					sc.Light = 1
					out = append(out, sc)
				}
			}
		}
	}
	return out
}

// sentinelWrappingErrors: a task fails with an error of its own that wraps the exported dag.ErrorTaskSkipped.
func sentinelWrappingErrors(thorough bool) []*Scenario {
	var out []*Scenario
	for n := 1; n <= 3; n++ {
		for _, es := range AllDAGs(n) {
			if n == 3 && len(es) != 2 && !thorough {
				continue
			}
			for v := 0; v < n; v++ {
				scr := make([][]string, n)
				for i := range scr {
					scr[i] = []string{"ok"}
				}
				scr[v] = []string{"tskip"}
				if !relevant(n, es, scr) {
					continue
				}
				sc := GraphScenario(n, es, scr, nil, "par")
				sc.Light = 1
				out = append(out, sc)
			}
		}
	}
	return out
}

// implicitVertices: the TaskMap / README style - no AddTask for tasks that appear in a TaskDependsOn call, the vertices
// are created by the call that mentions them first; one task skips, fails or all succeed.
func implicitVertices(thorough bool) []*Scenario {
	var out []*Scenario
	for n := 2; n <= 3; n++ {
		for _, es := range AllDAGs(n) {
			if len(es) == 0 || (n == 3 && len(es) > 2 && !thorough) {
				continue
			}
			for v := -1; v < n; v++ {
				for _, how := range []string{"skip", "err"} {
					if v < 0 && how == "err" {
						continue
					}
					scr := make([][]string, n)
					for i := range scr {
						scr[i] = []string{"ok"}
					}
					if v >= 0 {
						scr[v] = []string{how}
					}
					if !relevant(n, es, scr) {
						continue
					}
					sc := &Scenario{N: n, Scripts: scr, Mode: "par", NoAdd: true, Light: 1}
					mentioned := make([]bool, n)
					for _, e := range es {
						sc.Hist = append(sc.Hist, Call{"dep", e[0], e[1]})
						mentioned[e[0]], mentioned[e[1]] = true, true
					}
					for i := 0; i < n; i++ {
						if !mentioned[i] {
							sc.Hist = append(sc.Hist, Call{"add", i, 0})
						}
					}
					out = append(out, sc)
				}
			}
		}
	}
	return out
}

// failingOutputWriter: output buffering with a writer that takes nothing and always fails; the output is lost, the run goes on.
func failingOutputWriter(thorough bool) []*Scenario {
	var out []*Scenario
	for n := 1; n <= 2; n++ {
		for _, es := range AllDAGs(n) {
			for _, mode := range []string{"par", "max1"} {
				for _, retry := range []bool{false, true} {
					scr := make([][]string, n)
					for i := range scr {
						scr[i] = []string{"ok"}
					}
					ret := make([]int, n)
					if retry {
						scr[n-1] = []string{"err", "ok"}
						ret[n-1] = 1
					}
					sc := GraphScenario(n, es, scr, ret, mode)
					sc.Buffer, sc.WriterFails = true, true
					sc.Light = 1
					out = append(out, sc)
				}
			}
		}
	}
	return out
}

// sharedOutputWriter: two graphs that both buffer their output and write to one writer (a log file both append to).
func sharedOutputWriter(thorough bool) []*Scenario {
	var out []*Scenario
	for n := 1; n <= 2; n++ {
		scr := make([][]string, n)
		for i := range scr {
			scr[i] = []string{"ok"}
		}
		for _, mode2 := range []string{"par", "serial"} {
			sc := GraphScenario(n, nil, scr, nil, "par")
			sc.SharedMode = mode2
			sc.Shared = []int{0}
			sc.Buffer, sc.SharedWriter = true, true
			out = append(out, sc)
		}
	}
	return out
}

// validateThenRun: Validate(nil) called (once, twice) between the construction and Run, on acyclic and cyclic graphs.
func validateThenRun(thorough bool) []*Scenario {
	var out []*Scenario
	for _, edges := range [][]Call{
		{{"dep", 0, 1}},
		{{"dep", 0, 1}, {"dep", 1, 0}},
		{{"dep", 0, 1}, {"dep", 1, 2}, {"dep", 2, 0}},
		{{"dep", 0, 1}, {"dep", 1, 2}},
	} {
		for nv := 1; nv <= 2; nv++ {
			h := []Call{{"add", 0, 0}, {"add", 1, 0}, {"add", 2, 0}}
			h = append(h, edges...)
			for i := 0; i < nv; i++ {
				h = append(h, Call{"validate", 0, 0})
			}
			sc := &Scenario{N: 3, Hist: h, Mode: "par", History: true, Light: 1}
			sc.Scripts = [][]string{{"ok"}, {"ok"}, {"ok"}}
			out = append(out, sc)
		}
	}
	return out
}

// serialThenLimit: SetSerial followed by SetMaxParallel(n > 1) on the same graph: still one task at a time.
func serialThenLimit(thorough bool) []*Scenario {
	var out []*Scenario
	for _, h := range [][]Call{
		{{"max", 2, 0}, {"add", 0, 0}, {"add", 1, 0}, {"add", 2, 0}},
		{{"add", 0, 0}, {"add", 1, 0}, {"max", 3, 0}, {"dep", 2, 0}},
	} {
		sc := &Scenario{N: 3, Hist: h, Mode: "serial", History: true, Light: 1}
		sc.Scripts = [][]string{{"ok"}, {"ok"}, {"ok"}}
		out = append(out, sc)
	}
	return out
}

// literalSharedTasks: tasks built as struct literals (not through NewTask) shared by two concurrently running graphs.
func literalSharedTasks(thorough bool) []*Scenario {
	var out []*Scenario
	for n := 1; n <= 2; n++ {
		scr := make([][]string, n)
		for i := range scr {
			scr[i] = []string{"ok"}
		}
		for _, mm := range [][2]string{{"par", "par"}, {"serial", "par"}} {
			sc := GraphScenario(n, nil, scr, nil, mm[0])
			sc.SharedMode = mm[1]
			sc.Shared = []int{0}
			sc.Literal = true
			out = append(out, sc)
		}
	}
	return out
}

// percentIDs: task IDs and graph name with percent signs, one task failing or skipping.
func percentIDs(thorough bool) []*Scenario {
	var out []*Scenario
	for _, es := range [][][2]int{nil, {{1, 0}}, {{1, 0}, {2, 1}}} {
		for v := 0; v < 3; v++ {
			for _, how := range []string{"err", "skip"} {
				scr := [][]string{{"ok"}, {"ok"}, {"ok"}}
				scr[v] = []string{how}
				if !relevant(3, es, scr) {
					continue
				}
				sc := GraphScenario(3, es, scr, nil, "par")
				sc.PctIDs = true
				sc.Light = 1
				out = append(out, sc)
			}
		}
	}
	return out
}

// contextWrappingErrors: a cancellation thread, and tasks whose error wraps ctx.Err() when the context is done by then.
func contextWrappingErrors(thorough bool) []*Scenario {
	var out []*Scenario
	for n := 1; n <= 2; n++ {
		for _, es := range AllDAGs(n) {
			for v := 0; v < n; v++ {
				scr := make([][]string, n)
				for i := range scr {
					scr[i] = []string{"ok"}
				}
				scr[v] = []string{"xerr"}
				if !relevant(n, es, scr) {
					continue
				}
				for _, mode := range []string{"par", "serial"} {
					sc := GraphScenario(n, es, scr, nil, mode)
					sc.Cancel = true
					sc.Light = 1
					out = append(out, sc)
				}
			}
		}
	}
	return out
}

// sharedThroughAccessor: the second graph gets the shared task through g.Task(id) of the first graph.
func sharedThroughAccessor(thorough bool) []*Scenario {
	var out []*Scenario
	for n := 1; n <= 2; n++ {
		scr := make([][]string, n)
		for i := range scr {
			scr[i] = []string{"ok"}
		}
		for _, mm := range [][2]string{{"par", "par"}, {"serial", "par"}, {"max1", "serial"}} {
			sc := GraphScenario(n, nil, scr, nil, mm[0])
			sc.SharedMode = mm[1]
			sc.Shared = []int{0}
			sc.ViaTask = true
			out = append(out, sc)
		}
	}
	return out
}

// tickerZero: Graph.TickerDuration set to zero (poll without pause).
func tickerZero(thorough bool) []*Scenario {
	var out []*Scenario
	for _, es := range [][][2]int{nil, {{1, 0}}} {
		for _, mode := range []string{"par", "max1"} {
			sc := GraphScenario(2, es, [][]string{{"ok"}, {"ok"}}, nil, mode)
			sc.TickerZero = true
			sc.Light = 1
			out = append(out, sc)
		}
	}
	return out
}
