// Package dagh drives the real dag.Graph.Run under the controlled scheduler and
// judges every execution with the oracles of properties C13-C16.
package dagh

import (
	"context"
	"errors"
	"fmt"
	"io"
	"log"
	"runtime"
	"sort"
	"strings"
	"time"

	"github.com/DavidGamba/go-getoptions"
	"github.com/DavidGamba/go-getoptions/dag"
	"github.com/DavidGamba/go-getoptions/verifrt"
)

// Call is one graph-construction call of a history.
type Call struct {
	Op string `json:"op"` // max (SetMaxParallel(A) in the middle of a history) | add | dep | retries | add2 (AddTask of a second Task object with the same ID) | sort (DepthFirstSort) | run (Run, judged, before the history goes on)
	A  int    `json:"a"`
	B  int    `json:"b"`
}

func (c Call) String() string {
	switch c.Op {
	case "add":
		return fmt.Sprintf("AddTask(%s)", tid(c.A))
	case "dep":
		return fmt.Sprintf("TaskDependsOn(%s,%s)", tid(c.A), tid(c.B))
	case "add2":
		return fmt.Sprintf("AddTask(%s')", tid(c.A))
	case "sort":
		return "DepthFirstSort()"
	case "validate":
		return "Validate(nil)"
	case "run":
		return "Run()"
	case "max":
		return fmt.Sprintf("SetMaxParallel(%d)", c.A)
	default:
		return fmt.Sprintf("TaskRetries(%s,%d)", tid(c.A), c.B)
	}
}

// Scenario fixes everything but the schedule.
type Scenario struct {
	N            int        `json:"n"`
	Hist         []Call     `json:"hist"`
	Scripts      [][]string `json:"scripts"` // per task, result of each attempt: ok | err | skip (last repeats)
	Mode         string     `json:"mode"`    // par | max1 | max2 | max3 | serial
	Cancel       bool       `json:"cancel,omitempty"`
	Buffer       bool       `json:"buffer,omitempty"`
	SharedWriter bool       `json:"shared_writer,omitempty"` // the second graph buffers its output too and writes to the same writer; the writer takes each Write as a whole
	WriterFails  bool       `json:"writer_fails,omitempty"`  // the writer given to SetOutputBuffer takes nothing and reports an error for every Write (closed pipe, full disk)
	BigOutput    bool       `json:"big_output,omitempty"`    // every task attempt writes more than 64 KiB
	Shared       []int      `json:"shared,omitempty"`        // second graph run concurrently, made of these (shared) tasks, no edges
	SharedMode   string     `json:"shared_mode,omitempty"`   // mode of the second graph (par | serial)
	Shared2      bool       `json:"shared2,omitempty"`       // the second graph is made of the second Task objects (the ones add2 hands to the first graph)
	Rerun        bool       `json:"rerun,omitempty"`         // call Run a second time on the same graph
	PctIDs       bool       `json:"percent_ids,omitempty"`   // task IDs and the graph name contain a percent sign
	ErrsKind     int        `json:"errs_kind,omitempty"`     // the error a failing task returns is a *dag.Errors value (a sub-graph run as a task, a collected report): 1 = without entries, 2 = with one entry
	ViaTask      bool       `json:"via_task,omitempty"`      // the second graph gets its shared tasks through g.Task(id) of the first one
	TickerZero   bool       `json:"ticker_zero,omitempty"`   // Graph.TickerDuration = 0
	NoAdd        bool       `json:"no_add,omitempty"`        // (documentation only) vertices are created by the TaskDependsOn calls that mention them, not by AddTask
	Literal      bool       `json:"literal_tasks,omitempty"` // tasks are struct literals &dag.Task{ID, Fn} instead of dag.NewTask results
	SortOnly     bool       `json:"sort_only,omitempty"`     // the history (with its DepthFirstSort calls) is everything: no final Run
	History      bool       `json:"history,omitempty"`       // construction-history scenario (C16a): edges are whatever the history declares
	Canon        bool       `json:"canon,omitempty"`         // the graph is the representative of its isomorphism class
	Light        int        `json:"light,omitempty"`         // larger graph: 1 = explored with at most one deviation in total, 2 = default schedule and all completion orders only
}

func tid(i int) string { return string(rune('a' + i)) }

// Multi reports whether Run is called more than once on the graph.
func (sc *Scenario) Multi() bool {
	if sc.Rerun {
		return true
	}
	for _, c := range sc.Hist {
		if c.Op == "run" {
			return true
		}
	}
	return false
}

func (sc *Scenario) String() string {
	var h []string
	for _, c := range sc.Hist {
		h = append(h, c.String())
	}
	s := fmt.Sprintf("n=%d mode=%s hist=[%s] scripts=%v", sc.N, sc.Mode, strings.Join(h, " "), sc.Scripts)
	if sc.Cancel {
		s += " cancel"
	}
	if sc.Buffer {
		s += " buffer"
	}
	if sc.WriterFails {
		s += " (the output writer always fails)"
	}
	if sc.SharedWriter {
		s += " (both graphs buffer and write to the same writer)"
	}
	if len(sc.Shared) > 0 {
		s += fmt.Sprintf(" shared=%v/%s", sc.Shared, sc.SharedMode)
	}
	if sc.Shared2 {
		s += " (second Task objects)"
	}
	if sc.Rerun {
		s += " rerun"
	}
	if sc.SortOnly {
		s += " (no Run)"
	}
	if sc.Literal {
		s += " (Task literals)"
	}
	if sc.PctIDs {
		s += " (percent signs in IDs)"
	}
	if sc.ErrsKind == 1 {
		s += " (failing tasks return an empty *dag.Errors)"
	} else if sc.ErrsKind == 2 {
		s += " (failing tasks return a *dag.Errors with one entry)"
	}
	if sc.ViaTask {
		s += " (shared through g.Task(id))"
	}
	if sc.TickerZero {
		s += " (TickerDuration 0)"
	}
	return s
}

// GraphScenario builds the canonical history for a labelled DAG: edges[i] lists (task, dependency).
func GraphScenario(n int, edges [][2]int, scripts [][]string, retries []int, mode string) *Scenario {
	sc := &Scenario{N: n, Scripts: scripts, Mode: mode}
	for i := 0; i < n; i++ {
		sc.Hist = append(sc.Hist, Call{"add", i, 0})
	}
	for _, e := range edges {
		sc.Hist = append(sc.Hist, Call{"dep", e[0], e[1]})
	}
	for i, r := range retries {
		if r > 0 {
			sc.Hist = append(sc.Hist, Call{"retries", i, r})
		}
	}
	return sc
}

// ---------------------------------------------------------------------------
// declared model of a history (reference semantics, deliberately boring)

type model struct {
	n        int
	present  []bool
	deps     [][]int // declared dependencies per task
	retries  []int
	defError bool // a construction call must have recorded a definition error (duplicate edge)
	cycle    bool
}

func declared(sc *Scenario) *model {
	m := &model{n: sc.N, present: make([]bool, sc.N), deps: make([][]int, sc.N), retries: make([]int, sc.N)}
	for _, c := range sc.Hist {
		switch c.Op {
		case "add", "add2":
			m.present[c.A] = true
		case "dep":
			m.present[c.A] = true
			m.present[c.B] = true
			dup := false
			for _, d := range m.deps[c.A] {
				if d == c.B {
					dup = true
				}
			}
			if dup {
				m.defError = true
			} else {
				m.deps[c.A] = append(m.deps[c.A], c.B)
			}
		case "retries":
			m.present[c.A] = true
			m.retries[c.A] = c.B
		}
	}
	// cycle detection (colours)
	col := make([]int, sc.N)
	var visit func(int) bool
	visit = func(v int) bool {
		if col[v] == 1 {
			return true
		}
		if col[v] == 2 {
			return false
		}
		col[v] = 1
		for _, d := range m.deps[v] {
			if visit(d) {
				return true
			}
		}
		col[v] = 2
		return false
	}
	for v := 0; v < sc.N; v++ {
		if m.present[v] && visit(v) {
			m.cycle = true
		}
	}
	return m
}

// transitive dependencies
func (m *model) closure(v int) map[int]bool {
	return m.closureSet(v)
}

// deps lists the transitive dependencies in ascending order (deterministic reports).
func (m *model) tdeps(v int) []int {
	var out []int
	for d := range m.closureSet(v) {
		out = append(out, d)
	}
	sort.Ints(out)
	return out
}

func (m *model) closureSet(v int) map[int]bool {
	out := map[int]bool{}
	var rec func(int)
	rec = func(x int) {
		for _, d := range m.deps[x] {
			if !out[d] {
				out[d] = true
				rec(d)
			}
		}
	}
	rec(v)
	return out
}

// ---------------------------------------------------------------------------
// one execution

// Finding is one oracle failure.
type Finding struct {
	Prop  string
	Msg   string
	Known string // signature of a recorded finding (known_findings.json) this failure is an instance of, "" otherwise
	AtEnd bool   // produced by the end-of-run oracles (meaningless for an execution that was cut off)
}

// Obs summarises an execution for outcome counting and conformance.
type Obs struct {
	Status   string
	Started  string // sorted set of started tasks
	Attempts string
	ErrShape string
	Peak     int
	Order    string
}

func (o Obs) Key() string {
	return fmt.Sprintf("%s|%s|%s|%s|%d|%s", o.Status, o.Started, o.Attempts, o.ErrShape, o.Peak, o.Order)
}

// Counters are vacuity counters (how often oracle clauses were exercised).
type Counters struct {
	Enters         int64
	DepChecks      int64 // (dependency, dependent) pairs checked at an enter
	Overlaps       int64 // enters that happened while another task was running
	Quiescent      int64 // quiescent states examined for work conservation
	CancelObserved int64
	RetryEnters    int64
	Flushes        int64
	SharedEnters   int64
	ReadyWhileRun  int64 // quiescent states in which a task was running and none was ready (bound respected)
	Leaks          int64 // executions that ended with a library goroutine parked forever after Run had returned
	Sorts          int64 // DepthFirstSort results judged
	Quiescent2     int64 // quiescent states in which the second graph was examined
}

func (c *Counters) Add(o *Counters) {
	c.Enters += o.Enters
	c.DepChecks += o.DepChecks
	c.Overlaps += o.Overlaps
	c.Quiescent += o.Quiescent
	c.CancelObserved += o.CancelObserved
	c.RetryEnters += o.RetryEnters
	c.Flushes += o.Flushes
	c.SharedEnters += o.SharedEnters
	c.ReadyWhileRun += o.ReadyWhileRun
	c.Leaks += o.Leaks
	c.Sorts += o.Sorts
	c.Quiescent2 += o.Quiescent2
}

type attemptRec struct {
	task    int
	attempt int
	result  string
	enterVC verifrt.VC
	exitVC  verifrt.VC
	exited  bool
	thread  int
	graph   int
}

type run struct {
	sc       *Scenario
	m        *model
	findings []Finding
	cnt      Counters

	tasks        []*dag.Task
	tasks2       []*dag.Task // second Task object per ID (same function)
	sentinel     []error
	multi        bool  // Run is called more than once
	panicked     bool  // a task function panicked on purpose (script "panic")
	goexited     bool  // a task function ended its goroutine with runtime.Goexit (script "goexit")
	failedBefore bool  // a task had failed or a cancellation had been requested when the current Run started
	before       []int // attempts per task when the current Run started

	attempts   [][]*attemptRec // per task
	running    []int           // per task: concurrently executing count (across graphs)
	runningG   [2]int          // per graph
	peak       int
	awaiting   []*attemptRec
	released   map[*attemptRec]bool
	returned   [2]bool
	runErr     [2]error
	nGraphs    int
	failed     bool // some task returned a final non-skip error, or a cancellation was requested
	taskFailed bool // some task returned a final non-skip error
	cancelled  bool
	order      []string
	lastExit   *attemptRec

	out       []byte   // bytes received by the buffered-output writer
	outMarks  []string // chunk markers in arrival order
	stdoutBad bool
	capacity  int
	por       bool
}

func (r *run) fail(prop, format string, a ...any) {
	r.findings = append(r.findings, Finding{Prop: prop, Msg: fmt.Sprintf(format, a...)})
}

type hctx struct {
	context.Context
	done chan struct{}
	r    *run
}

func (c *hctx) Done() <-chan struct{} { return c.done }
func (c *hctx) Err() error {
	if c.r.cancelled {
		return context.Canceled
	}
	return nil
}

type outWriter struct{ r *run }

// Write receives one flush; it yields in the middle so that a concurrent flush could interleave.
func (w *outWriter) Write(p []byte) (int, error) {
	r := w.r
	r.cnt.Flushes++
	if r.sc.WriterFails {
		return 0, errors.New("write failed: no space left on device")
	}
	if r.sc.SharedWriter {
		// a writer that is safe for concurrent use: each Write lands as a whole, another producer can come in between two
		verifrt.Yield()
		r.out = append(r.out, p...)
		return len(p), nil
	}
	h := len(p) / 2
	r.out = append(r.out, p[:h]...)
	verifrt.Yield()
	r.out = append(r.out, p[h:]...)
	return len(p), nil
}

var discardLogger = log.New(io.Discard, "", 0)

// 40 KiB of filler: two of them per attempt exceed any reasonable internal flush threshold
var bigFiller = []byte(strings.Repeat("0123456789abcdef", 2560))

// Execute runs the scenario once under the chooser and returns findings, observation and counters.
func Execute(sc *Scenario, ch verifrt.Chooser, trace func(string)) ([]Finding, Obs, Counters, *verifrt.Result) {
	return execute(sc, ch, trace, false)
}

// ExecutePOR is Execute arranged for the sleep-set exploration: every harness event is an
// operation on the single harness object (so the reduction never reorders two of them and the
// counter oracles stay valid), and the environment is one releaser thread per task instead of
// one thread with an internal choice.
func ExecutePOR(sc *Scenario, ch verifrt.Chooser, trace func(string)) ([]Finding, Obs, Counters, *verifrt.Result) {
	return execute(sc, ch, trace, true)
}

func execute(sc *Scenario, ch verifrt.Chooser, trace func(string), por bool) ([]Finding, Obs, Counters, *verifrt.Result) {
	dag.Logger = discardLogger
	r := &run{sc: sc, m: declared(sc), released: map[*attemptRec]bool{}, por: por}
	r.nGraphs = 1
	if len(sc.Shared) > 0 {
		r.nGraphs = 2
	}
	switch sc.Mode {
	case "serial", "max1":
		r.capacity = 1
	case "max2":
		r.capacity = 2
	case "max3":
		r.capacity = 3
	default:
		r.capacity = 1 << 30
	}
	res := verifrt.Run(verifrt.Config{Chooser: ch, MaxSteps: 4000, TickBudget: 200000, Trace: trace}, func() { r.main() })
	nBefore := len(r.findings)
	r.final(res)
	for i := nBefore; i < len(r.findings); i++ {
		r.findings[i].AtEnd = true
	}
	obs := r.obs(res)
	return r.findings, obs, r.cnt, res
}

func (r *run) script(task, attempt int) string {
	s := r.sc.Scripts[task]
	if len(s) == 0 {
		return "ok"
	}
	if attempt >= len(s) {
		return s[len(s)-1]
	}
	return s[attempt]
}

func (r *run) taskFn(i int, graph int) getoptions.CommandFn {
	return func(ctx context.Context, opt *getoptions.GetOpt, args []string) error {
		return r.body(i, ctx)
	}
}

func (r *run) graphOf(ctx context.Context) int {
	if v := ctx.Value(graphKey{}); v != nil {
		return v.(int)
	}
	return 0
}

type graphKey struct{}

// taskPanic is the value a task function with script "panic" panics with.
type taskPanic struct{ task string }

func (p taskPanic) String() string { return "harness task " + p.task + " panics (script)" }

func (r *run) body(i int, ctx context.Context) error {
	sc := r.sc
	g := r.graphOf(ctx)
	if r.por {
		verifrt.HarnessPoint("enter " + tid(i))
	}
	rec := &attemptRec{task: i, attempt: len(r.attempts[i]), enterVC: verifrt.CurrentVC(), thread: verifrt.CurrentThread(), graph: g}
	// ---- oracles at entry
	r.cnt.Enters++
	if g == 1 {
		r.cnt.SharedEnters++
	}
	if r.returned[g] {
		r.fail("C14", "task %s entered after Run had returned", tid(i))
	}
	if g == 0 {
		// C13: dependencies finished successfully, and visibly so
		for _, d := range r.m.tdeps(i) {
			r.cnt.DepChecks++
			as := r.attemptsOf(d, 0)
			if len(as) == 0 {
				r.fail("C13", "task %s entered before its dependency %s was ever started", tid(i), tid(d))
				continue
			}
			last := as[len(as)-1]
			if !last.exited {
				r.fail("C13", "task %s entered while its dependency %s was still running", tid(i), tid(d))
				continue
			}
			if last.result != "ok" {
				r.fail("C13", "task %s entered although its dependency %s finished with %q", tid(i), tid(d), last.result)
				continue
			}
			if !last.exitVC.Leq(rec.enterVC) {
				r.fail("C13", "task %s entered without a happens-before edge from the end of its dependency %s (writes of %s are not guaranteed visible)", tid(i), tid(d), tid(d))
			}
		}
		// C13: attempts strictly sequential, bounded, stop at first nil
		prev := r.attemptsOf(i, 0)
		if len(prev) > 0 {
			r.cnt.RetryEnters++
			p := prev[len(prev)-1]
			if !p.exited {
				r.fail("C13", "task %s attempt %d entered while attempt %d was still running", tid(i), len(prev), p.attempt)
			} else {
				if p.result == "ok" {
					r.fail("C13", "task %s entered again after an attempt had already returned nil", tid(i))
				}
				if !p.exitVC.Leq(rec.enterVC) {
					r.fail("C13", "task %s attempts are not ordered by happens-before", tid(i))
				}
			}
			if len(prev) > r.m.retries[i] && !r.multi {
				r.fail("C13", "task %s entered %d times with %d retries configured", tid(i), len(prev)+1, r.m.retries[i])
			}
		}
		// C14: nothing starts below a failed task / nothing is launched after an observed cancellation (checked in final)
		for _, d := range r.m.tdeps(i) {
			as := r.attemptsOf(d, 0)
			if len(as) > 0 && as[len(as)-1].exited && as[len(as)-1].result == "err" && len(as) > r.m.retries[d] {
				r.fail("C14", "task %s started although task %s it depends on failed", tid(i), tid(d))
			}
		}
	}
	// C15: concurrency bound and per-Task exclusion
	if r.running[i] > 0 {
		r.fail("C15", "task %s is executing twice at the same time (shared Task)", tid(i))
	}
	if r.runningG[g] > 0 {
		r.cnt.Overlaps++
	}
	if r.runningG[g]+1 > r.capacity && g == 0 {
		r.fail("C15", "%d task functions executing at once, limit is %d (mode %s)", r.runningG[g]+1, r.capacity, sc.Mode)
	}
	if sc.Mode == "serial" && g == 0 && r.lastExit != nil {
		if !r.lastExit.exitVC.Leq(rec.enterVC) {
			r.fail("C15", "serial mode: task %s is not ordered after the previous task %s by happens-before", tid(i), tid(r.lastExit.task))
		}
	}
	r.attempts[i] = append(r.attempts[i], rec)
	r.running[i]++
	r.runningG[g]++
	tot := r.runningG[0] + r.runningG[1]
	if tot > r.peak {
		r.peak = tot
	}
	r.order = append(r.order, "+"+tid(i))
	verifrt.Emit("enter", tid(i), rec.attempt)

	// ---- body
	if sc.Buffer {
		w := dag.Stdout(ctx)
		if _, isOut := w.(interface{ Fd() uintptr }); isOut {
			r.stdoutBad = true
			r.fail("C15", "output buffering is on but dag.Stdout(ctx) is the process stdout")
		} else {
			fmt.Fprintf(w, "<%s%d.1>", tid(i), rec.attempt)
			if sc.BigOutput {
				w.Write(bigFiller)
			}
			verifrt.Yield()
			if sc.BigOutput {
				w.Write(bigFiller)
			}
			fmt.Fprintf(dag.Stderr(ctx), "<%s%d.2>", tid(i), rec.attempt)
		}
	}
	r.awaiting = append(r.awaiting, rec)
	verifrt.Block("await "+tid(i), func() bool { return r.released[rec] })

	// ---- exit
	rec.result = r.script(i, rec.attempt)
	if rec.result == "panic" {
		// the task function panics: it never returns nil (whatever the library makes of the panic)
		rec.exited = true
		r.running[i]--
		r.runningG[g]--
		r.order = append(r.order, "!"+tid(i))
		verifrt.Emit("exit", tid(i), rec.attempt)
		rec.exitVC = verifrt.CurrentVC()
		r.failed = true
		r.taskFailed = true
		r.panicked = true
		panic(taskPanic{tid(i)})
	}
	if rec.result == "goexit" {
		// the task ends its goroutine with runtime.Goexit (t.FailNow inside a task ...): it never returns at all
		rec.exited = true
		r.running[i]--
		r.runningG[g]--
		r.order = append(r.order, "!"+tid(i))
		verifrt.Emit("exit", tid(i), rec.attempt)
		rec.exitVC = verifrt.CurrentVC()
		r.failed = true
		r.taskFailed = true
		r.goexited = true
		runtime.Goexit()
	}
	ctxWrap := rec.result == "xerr" // fails; if the run's context is done by then, the error wraps ctx.Err()
	if ctxWrap {
		rec.result = "err"
	}
	wrappedSkip := rec.result == "wskip" // ErrorSkipParents wrapped with context (errors.Is still holds)
	if wrappedSkip {
		rec.result = "skip"
	}
	ctxErr := rec.result == "cerr" // an error of the task's own that wraps context.DeadlineExceeded while the run's context is live
	if ctxErr {
		rec.result = "err"
	}
	skipErr := rec.result == "tskip" // an error of the task's own that wraps the exported dag.ErrorTaskSkipped: a failure like any other
	if skipErr {
		rec.result = "err"
	}
	rec.exited = true
	r.running[i]--
	r.runningG[g]--
	r.order = append(r.order, "-"+tid(i))
	verifrt.Emit("exit", tid(i), rec.attempt)
	rec.exitVC = verifrt.CurrentVC()
	if g == 0 {
		r.lastExit = rec
	}
	switch rec.result {
	case "ok":
		return nil
	case "skip":
		if wrappedSkip {
			return fmt.Errorf("artifact of %s is up to date: %w", tid(i), dag.ErrorSkipParents)
		}
		return dag.ErrorSkipParents
	default:
		if g == 0 && rec.attempt >= r.m.retries[i] {
			r.failed = true
			r.taskFailed = true
		}
		if ctxErr {
			return fmt.Errorf("%w: %w", r.sentinel[i], context.DeadlineExceeded)
		}
		if skipErr {
			return fmt.Errorf("%w: nothing to do: %w", r.sentinel[i], dag.ErrorTaskSkipped)
		}
		if ctxWrap && ctx.Err() != nil {
			return fmt.Errorf("%w: interrupted: %w", r.sentinel[i], ctx.Err())
		}
		return r.sentinel[i]
	}
}

func (r *run) attemptsOf(task, graph int) []*attemptRec {
	var out []*attemptRec
	for _, a := range r.attempts[task] {
		if a.graph == graph {
			out = append(out, a)
		}
	}
	return out
}

func (r *run) main() {
	sc := r.sc
	n := sc.N
	r.multi = sc.Multi()
	r.attempts = make([][]*attemptRec, n)
	r.running = make([]int, n)
	r.before = make([]int, n)
	r.tasks = make([]*dag.Task, n)
	r.tasks2 = make([]*dag.Task, n)
	r.sentinel = make([]error, n)
	for i := 0; i < n; i++ {
		i := i
		r.sentinel[i] = fmt.Errorf("task-%s-failed", tid(i))
		switch sc.ErrsKind {
		case 1:
			r.sentinel[i] = &dag.Errors{Msg: "collected by task " + tid(i)}
		case 2:
			r.sentinel[i] = &dag.Errors{Msg: "sub-graph of task " + tid(i), Errors: []error{fmt.Errorf("inner-%s-failed", tid(i))}}
		}
		id := tid(i)
		if sc.PctIDs {
			id = tid(i) + ">=80%d 100%" // a legal ID; the library must not use it as a format string
		}
		r.tasks[i] = dag.NewTask(id, r.taskFn(i, 0))
		r.tasks2[i] = dag.NewTask(id, r.taskFn(i, 0))
		if sc.Literal {
			r.tasks[i] = &dag.Task{ID: dag.ID(id), Fn: r.taskFn(i, 0)}
		}
	}
	gname := "g"
	if sc.PctIDs {
		gname = "rollout 100%s"
	}
	g := dag.NewGraph(gname)
	g.TickerDuration = time.Millisecond
	if sc.TickerZero {
		g.TickerDuration = 0
	}
	switch sc.Mode {
	case "serial":
		g.SetSerial()
	case "max1":
		g.SetMaxParallel(1)
	case "max2":
		g.SetMaxParallel(2)
	case "max3":
		g.SetMaxParallel(3)
	}
	var w *outWriter
	if sc.Buffer {
		w = &outWriter{r}
		g.SetOutputBuffer(w)
	}
	var ctx context.Context = context.Background()
	if sc.Cancel {
		hc := &hctx{Context: context.Background(), done: verifrt.RegChan(make(chan struct{})), r: r}
		ctx = hc
		verifrt.GoEnv("cancel", 1, func() {
			verifrt.Block("cancel", nil)
			r.cancelled = true
			r.failed = true
			verifrt.Emit("cancel", "", 0)
			verifrt.Close(hc.done)
			verifrt.Emit("cancelled", "", 0)
		})
	}
	// environment: decides which running task finishes next
	if r.por {
		for t := 0; t < n; t++ {
			t := t
			verifrt.GoEnv("rel-"+tid(t), 10+t, func() {
				for {
					var mine *attemptRec
					verifrt.Block("release "+tid(t), func() bool {
						mine = nil
						for _, a := range r.awaiting {
							if a.task == t {
								mine = a
							}
						}
						return mine != nil || verifrt.AliveNonEnv() == 0
					})
					if mine == nil {
						return
					}
					for k, a := range r.awaiting {
						if a == mine {
							r.awaiting = append(r.awaiting[:k:k], r.awaiting[k+1:]...)
							break
						}
					}
					r.released[mine] = true
				}
			})
		}
	} else {
		verifrt.GoEnv("env", 2, func() {
			for {
				verifrt.Block("env", func() bool {
					return len(r.awaiting) > 0 || verifrt.AliveNonEnv() == 0
				})
				if len(r.awaiting) == 0 {
					return
				}
				r.quiescent()
				k := verifrt.Choose(len(r.awaiting), "finish")
				rec := r.awaiting[k]
				r.awaiting = append(r.awaiting[:k:k], r.awaiting[k+1:]...)
				r.released[rec] = true
			}
		})
	}
	// the construction history; `run` and `sort` calls in it are judged against the graph declared so far
	full := r.m
	for idx, c := range sc.Hist {
		switch c.Op {
		case "add":
			g.AddTask(r.tasks[c.A])
		case "add2":
			g.AddTask(r.tasks2[c.A])
		case "dep":
			g.TaskDependsOn(r.tasks[c.A], r.tasks[c.B])
		case "retries":
			g.TaskRetries(r.tasks[c.A], c.B)
		case "max":
			g.SetMaxParallel(c.A)
			if sc.Mode != "serial" { // a serial graph stays serial whatever limit is set later
				r.capacity = c.A
			}
		case "sort":
			r.m = declared(&Scenario{N: sc.N, Hist: sc.Hist[:idx]})
			r.checkSort(g)
		case "validate":
			_ = g.Validate(nil) // a look at the definition errors collected so far: changes nothing
		case "run":
			r.m = declared(&Scenario{N: sc.N, Hist: sc.Hist[:idx]})
			r.startRun()
			err := g.Run(ctx, nil, nil)
			r.endRun(err)
			r.judgeMidRun(err)
		}
	}
	r.m = full
	if sc.SortOnly {
		return
	}
	if len(sc.Shared) > 0 {
		g2 := dag.NewGraph("g2")
		if sc.SharedMode == "serial" {
			g2.SetSerial()
		}
		if sc.SharedWriter && w != nil {
			g2.SetOutputBuffer(w)
		}
		for _, t := range sc.Shared {
			switch {
			case sc.Shared2:
				g2.AddTask(r.tasks2[t])
			case sc.ViaTask:
				g2.AddTask(g.Task(string(r.tasks[t].ID)))
			default:
				g2.AddTask(r.tasks[t])
			}
		}
		verifrt.Go(func() {
			r.runErr[1] = g2.Run(context.WithValue(ctx, graphKey{}, 1), nil, nil)
			r.returned[1] = true
		})
	}
	r.startRun()
	r.runErr[0] = g.Run(ctx, nil, nil)
	r.endRun(r.runErr[0])
	if sc.Rerun {
		err2 := g.Run(ctx, nil, nil)
		verifrt.Emit("return2", fmt.Sprint(err2 != nil), 0)
	}
}

func (r *run) startRun() {
	r.returned[0] = false
	r.failedBefore = r.failed
	for t := range r.before {
		r.before[t] = len(r.attemptsOf(t, 0))
	}
}

func (r *run) endRun(err error) {
	r.returned[0] = true
	verifrt.Emit("return", "", 0)
	for t := 0; t < r.sc.N; t++ {
		for _, a := range r.attemptsOf(t, 0) {
			if !a.exited {
				r.fail("C14", "Run returned while task %s was still executing", tid(t))
			}
		}
	}
}

// startedInThisRun lists the tasks entered since the current Run began.
func (r *run) startedInThisRun() []string {
	var out []string
	for t := 0; t < r.sc.N; t++ {
		if len(r.attemptsOf(t, 0)) > r.before[t] {
			out = append(out, tid(t))
		}
	}
	return out
}

// judgeMidRun judges a Run that is followed by further construction calls (reduced oracle: rejection of cycles and
// definition errors, nil exactly when everything ran; the per-enter oracles have already judged the ordering).
func (r *run) judgeMidRun(err error) {
	m := r.m
	for _, c := range r.sc.Hist {
		if c.Op == "retries" && c.B < 0 {
			return
		}
	}
	if m.cycle || m.defError {
		if err == nil {
			r.fail("C16", "graph definition has %s but an intermediate Run returned nil", map[bool]string{true: "a dependency cycle", false: "a definition error"}[m.cycle])
		}
		if st := r.startedInThisRun(); m.cycle && len(st) > 0 {
			r.fail("C16", "graph has a dependency cycle but %v were started by an intermediate Run", st)
		}
		if m.cycle && !m.defError && err != nil && !errors.Is(err, dag.ErrorGraphHasCycle) && !r.failedBefore {
			r.fail("C16", "graph has a dependency cycle and no other definition error but the intermediate Run's error is not ErrorGraphHasCycle: %v", err)
		}
		return
	}
	if r.taskFailed {
		if err == nil {
			r.fail("C14", "a task failed but an intermediate Run returned nil")
		}
		return
	}
	if r.cancelled {
		return // whether this Run had to observe the cancellation depends on when it was requested: judged on the final Run only
	}
	if err != nil {
		r.fail("C14", "no task failed and no cancellation was requested but an intermediate Run returned an error: %v", err)
		return
	}
	for t := 0; t < r.sc.N; t++ {
		if !m.present[t] {
			continue
		}
		as := r.attemptsOf(t, 0)
		if len(as) > 0 && as[len(as)-1].result == "ok" {
			continue
		}
		above := false
		for _, d := range m.tdeps(t) {
			ds := r.attemptsOf(d, 0)
			if len(ds) > 0 && ds[len(ds)-1].result == "skip" {
				above = true
			}
		}
		if !above && len(as) == 0 {
			r.fail("C16", "an intermediate Run returned nil but task %s never ran and no ErrorSkipParents explains it", tid(t))
		}
	}
}

// checkSort judges DepthFirstSort against the graph declared so far: a cycle is reported, otherwise every
// vertex appears exactly once with its dependencies before it.
func (r *run) checkSort(g *dag.Graph) {
	m := r.m
	order, err := g.DepthFirstSort()
	if m.cycle {
		if err == nil {
			r.fail("C16", "DepthFirstSort: the declared graph has a dependency cycle but no error was returned")
		} else if !errors.Is(err, dag.ErrorGraphHasCycle) {
			r.fail("C16", "DepthFirstSort: the declared graph has a dependency cycle but the error is not ErrorGraphHasCycle: %v", err)
		}
		return
	}
	if err != nil {
		r.fail("C16", "DepthFirstSort: the declared graph is acyclic but an error was returned: %v", err)
		return
	}
	pos := map[string]int{}
	for i, v := range order {
		if _, dup := pos[string(v.ID)]; dup {
			r.fail("C16", "DepthFirstSort: vertex %s appears twice", v.ID)
		}
		pos[string(v.ID)] = i
	}
	np := 0
	for t := 0; t < r.sc.N; t++ {
		if !m.present[t] {
			continue
		}
		np++
		pt, ok := pos[string(r.tasks[t].ID)]
		if !ok {
			r.fail("C16", "DepthFirstSort: vertex %s is missing from the result", tid(t))
			continue
		}
		for _, d := range m.deps[t] {
			if pd, ok := pos[string(r.tasks[d].ID)]; ok && pd > pt {
				r.fail("C16", "DepthFirstSort: %s comes before its dependency %s", tid(t), tid(d))
			}
		}
	}
	if len(order) != np {
		r.fail("C16", "DepthFirstSort: %d vertices returned, the graph has %d", len(order), np)
	}
	r.cnt.Sorts++
}

// quiescent is called by the environment thread before it lets a task finish.
// If no other thread can move, the scheduler has had every chance to launch ready tasks.
func (r *run) quiescent() {
	for _, c := range r.sc.Hist {
		if c.Op == "retries" && c.B < 0 {
			return // outside the property's territory, see final()
		}
	}
	if verifrt.OthersEnabled() != 0 || r.failed || r.cancelled || r.returned[0] || r.sc.History && (r.m.cycle || r.m.defError) {
		return
	}
	r.cnt.Quiescent++
	// the second graph (no edges, unbounded or serial): a shared task that is not executing anywhere and that the
	// second graph has not started yet must not be kept waiting while the second graph has capacity
	if len(r.sc.Shared) > 0 && !r.returned[1] {
		r.cnt.Quiescent2++
		if !(r.sc.SharedMode == "serial" && r.runningG[1] > 0) {
			for _, t := range r.sc.Shared {
				if len(r.attemptsOf(t, 1)) == 0 && r.running[t] == 0 {
					r.fail("C16", "second graph: task %s is ready, is not executing anywhere and capacity remains, but it was not started while every thread is idle (first graph: %d running, limit %d)", tid(t), r.runningG[0], r.capacity)
				}
			}
		}
	}
	if r.runningG[0] >= r.capacity {
		r.cnt.ReadyWhileRun++
		return
	}
	// any skip so far?  tasks above an ErrorSkipParents are legitimately not started
	skipped := map[int]bool{}
	for t := 0; t < r.sc.N; t++ {
		as := r.attemptsOf(t, 0)
		if len(as) > 0 && as[len(as)-1].exited && as[len(as)-1].result == "skip" {
			skipped[t] = true
		}
	}
	// recorded finding "shared-task-slot": a bounded graph hands a slot to a task whose Task object is executing in
	// another graph; the slot stays occupied by a goroutine that only waits for that Task's lock
	slotForForeign := false
	if len(r.sc.Shared) > 0 && r.capacity < 1<<30 {
		for _, t := range r.sc.Shared {
			if r.m.present[t] && len(r.attemptsOf(t, 0)) == 0 && r.running[t] > 0 {
				slotForForeign = true
			}
		}
	}
	for t := 0; t < r.sc.N; t++ {
		if !r.m.present[t] || len(r.attemptsOf(t, 0)) > 0 {
			continue
		}
		if r.running[t] > 0 {
			continue // executing in the other graph: the shared Task is rightly not started a second time
		}
		ready := true
		for _, d := range r.m.tdeps(t) {
			as := r.attemptsOf(d, 0)
			if len(as) == 0 || !as[len(as)-1].exited || as[len(as)-1].result != "ok" {
				ready = false
			}
			if skipped[d] {
				ready = false
			}
		}
		if ready {
			f := Finding{Prop: "C16", Msg: fmt.Sprintf("task %s is ready (all dependencies completed) and capacity remains (%d running, limit %d) but it was not started while every thread is idle", tid(t), r.runningG[0], r.capacity)}
			if slotForForeign {
				f.Known = "shared-task-slot"
				f.Msg += " [a slot of this graph is occupied by a task that waits for its Task object, which executes in the second graph]"
			}
			r.findings = append(r.findings, f)
		}
	}
}

func (r *run) final(res *verifrt.Result) {
	sc := r.sc
	m := r.m
	if res.Status != verifrt.StatusOK {
		allReturned := r.returned[0] && (r.nGraphs == 1 || r.returned[1])
		switch {
		case res.Status == verifrt.StatusPanic:
			if r.panicked && strings.Contains(res.Detail, "panics (script)") {
				// the task's own panic took the program down: nothing else was promised; what ran before it was
				// judged at enter time
				return
			}
			if strings.Contains(res.Detail, "spins without ever yielding") {
				r.fail("C16", "Run does not finish: %s", res.Detail)
				return
			}
			r.fail("*", "panic: %s", res.Detail)
			return
		case res.Status == verifrt.StatusDiverged:
			return
		case (res.Status == verifrt.StatusDeadlock || res.Status == verifrt.StatusLivelock) && r.goexited:
			// a task that never returns is outside "every started task eventually returns": that Run waits for it
			// for ever is the expected outcome; what was entered before was judged at enter time
			return
		case (res.Status == verifrt.StatusDeadlock || res.Status == verifrt.StatusLivelock) && allReturned:
			// Run returned; what is left over is a goroutine of the library parked forever on its
			// completion channel (a leak, which no listed property speaks about).  Judge the run normally.
			r.cnt.Leaks++
		default:
			r.fail("C16", "Run does not finish (%s): %s", res.Status, res.Detail)
			return
		}
	}
	if sc.SortOnly {
		return
	}
	err := r.runErr[0]
	var errs *dag.Errors
	isErrs := errors.As(err, &errs)

	// a negative retry count is outside what the property describes: only termination is judged
	for _, c := range sc.Hist {
		if c.Op == "retries" && c.B < 0 {
			return
		}
	}
	// ---- definition errors and cycles (C16)
	if m.cycle || m.defError {
		if err == nil {
			r.fail("C16", "graph definition has %s but Run returned nil", map[bool]string{true: "a dependency cycle", false: "a definition error"}[m.cycle])
		}
		if m.cycle {
			for _, t := range r.startedInThisRun() {
				r.fail("C16", "graph has a dependency cycle but task %s was started", t)
			}
		}
		// (a graph whose earlier Run failed or was cancelled keeps reporting that failure first; the statement
		// ranks the cycle only against definition errors, so the identity is not demanded then)
		if m.cycle && !m.defError && err != nil && !errors.Is(err, dag.ErrorGraphHasCycle) && !r.failedBefore {
			r.fail("C16", "graph has a dependency cycle and no other definition error but Run's error is not ErrorGraphHasCycle: %v", err)
		}
		return
	}

	// ---- which tasks ran, final results
	finalRes := make([]string, sc.N) // "", ok, err, skip
	for t := 0; t < sc.N; t++ {
		as := r.attemptsOf(t, 0)
		if len(as) > 0 {
			finalRes[t] = as[len(as)-1].result
			// retries: stop at first nil, at most R+1
			for k, a := range as {
				if a.result == "ok" && k != len(as)-1 && !r.multi {
					r.fail("C13", "task %s was retried after returning nil", tid(t))
				}
			}
			if !r.multi {
				if len(as)-1 > m.retries[t] {
					r.fail("C13", "task %s ran %d times with %d retries", tid(t), len(as), m.retries[t])
				}
				last := as[len(as)-1]
				if last.result == "err" && len(as)-1 < m.retries[t] {
					r.fail("C13", "task %s failed and was attempted only %d times with %d retries configured", tid(t), len(as), m.retries[t])
				}
			}
		}
	}
	// cancellation observed by the Run thread?
	cancelSeenStep := -1
	for _, e := range res.Events {
		if e.Name == "closed-seen" && e.Thread == 0 && cancelSeenStep < 0 {
			cancelSeenStep = e.Step
		}
	}
	// responsiveness: a whole polling iteration of Run (from the end of one sleep to the beginning of
	// the next) that lies entirely after cancel() must have looked at the context
	if sc.Cancel && !r.multi {
		cancelledAt, lastWake := -1, 0
		for _, e := range res.Events {
			switch {
			case e.Name == "cancelled":
				cancelledAt = e.Step
			case e.Thread == 0 && e.Name == "sleep-end":
				lastWake = e.Step
			case e.Thread == 0 && e.Name == "sleep-begin":
				if cancelledAt >= 0 && cancelledAt < lastWake && (cancelSeenStep < 0 || cancelSeenStep > e.Step) {
					r.fail("C14", "Run went through a whole polling iteration after the context had been cancelled (cancel at step %d, iteration from step %d to %d) without looking at it: cancellation during the last wave of tasks is never observed", cancelledAt, lastWake, e.Step)
				}
			}
		}
	}
	if cancelSeenStep >= 0 {
		r.cnt.CancelObserved++
		// threads spawned after the observation must not enter a task
		late := map[int]bool{}
		seen := false
		for _, e := range res.Events {
			if e.Name == "closed-seen" && e.Thread == 0 {
				seen = true
			}
			if seen && e.Name == "spawn" && e.Thread == 0 {
				late[e.N] = true
			}
			if e.Name == "enter" && late[e.Thread] {
				r.fail("C14", "task %s was launched after the cancellation had been observed", e.Arg)
			}
		}
		if err == nil {
			r.fail("C14", "cancellation was observed by Run but it returned nil")
		}
	}

	// with several Runs, a task may have run in an earlier one, before the edge in question was declared (those
	// entries were judged at enter time against the graph declared then): only entries of this Run count here
	ranUnderFinalGraph := func(u int) bool {
		if r.multi {
			return len(r.attemptsOf(u, 0)) > r.before[u]
		}
		return finalRes[u] != ""
	}
	// ---- failures and skips (C14)
	anyErr := false
	skipRoot := map[int]bool{}
	for t := 0; t < sc.N; t++ {
		if finalRes[t] == "err" {
			anyErr = true
			if !isErrs {
				r.fail("C14", "task %s failed but Run returned %v instead of *dag.Errors", tid(t), err)
			} else {
				found := false
				for _, e := range errs.Errors {
					if errors.Is(e, r.sentinel[t]) {
						found = true
					}
				}
				if !found {
					r.fail("C14", "task %s failed but Run's *Errors has no entry wrapping its error: %v", tid(t), err)
				}
			}
			for u := 0; u < sc.N; u++ {
				if m.closure(u)[t] && ranUnderFinalGraph(u) {
					r.fail("C14", "task %s ran although task %s it (transitively) depends on failed", tid(u), tid(t))
				}
			}
		}
		if finalRes[t] == "skip" {
			skipRoot[t] = true
			for u := 0; u < sc.N; u++ {
				if m.closure(u)[t] && ranUnderFinalGraph(u) {
					r.fail("C14", "task %s ran although task %s below it returned ErrorSkipParents", tid(u), tid(t))
				}
			}
		}
	}
	neverStarted, silent := 0, 0
	for t := 0; t < sc.N; t++ {
		if !m.present[t] || finalRes[t] != "" {
			continue
		}
		neverStarted++
		for _, d := range m.tdeps(t) {
			if skipRoot[d] {
				silent++
				break
			}
		}
	}
	nSkippedEntries := 0
	if isErrs {
		for _, e := range errs.Errors {
			own := false // the entry of a task whose own error happens to wrap the exported sentinel is not a skip report
			for t := 0; t < sc.N; t++ {
				if errors.Is(e, r.sentinel[t]) {
					own = true
				}
			}
			if errors.Is(e, dag.ErrorTaskSkipped) && !own {
				nSkippedEntries++
			}
		}
	}
	if (anyErr || cancelSeenStep >= 0) && !r.multi {
		want := neverStarted - silent
		if nSkippedEntries != want {
			r.fail("C14", "%d tasks were never started (%d of them above an ErrorSkipParents task) but Run reports %d ErrorTaskSkipped entries, want %d: %v", neverStarted, silent, nSkippedEntries, want, err)
		}
	}
	if !anyErr && cancelSeenStep < 0 {
		if err != nil {
			r.fail("C14", "no task failed and no cancellation was observed but Run returned an error: %v", err)
		}
		// every task ran successfully or sits above an ErrorSkipParents
		for t := 0; t < sc.N; t++ {
			if !m.present[t] {
				continue
			}
			if finalRes[t] == "" {
				above := false
				for _, d := range m.tdeps(t) {
					if skipRoot[d] {
						above = true
					}
				}
				if !above {
					r.fail("C16", "Run returned nil but task %s never ran and no ErrorSkipParents explains it", tid(t))
					r.fail("C14", "Run returned nil although task %s neither ran successfully nor was skipped through ErrorSkipParents", tid(t))
				}
			}
		}
	}
	if anyErr && err == nil {
		r.fail("C14", "a task failed but Run returned nil")
	}

	// ---- buffered output (C15)
	if sc.Buffer && !sc.WriterFails {
		out := string(r.out)
		for t := 0; t < sc.N; t++ {
			as := r.attemptsOf(t, 0)
			if sc.SharedWriter {
				as = append(append([]*attemptRec{}, as...), r.attemptsOf(t, 1)...)
			}
			for _, a := range as {
				want := fmt.Sprintf("<%s%d.1><%s%d.2>", tid(t), a.attempt, tid(t), a.attempt)
				if sc.BigOutput {
					want = fmt.Sprintf("<%s%d.1>%s%s<%s%d.2>", tid(t), a.attempt, bigFiller, bigFiller, tid(t), a.attempt)
				}
				if strings.Count(out, want) != 1 {
					shown := out
					if len(shown) > 200 {
						shown = shown[:100] + " ... " + shown[len(shown)-100:]
					}
					r.fail("C15", "output of task %s attempt %d is not one contiguous block in the writer (%d bytes received): %q", tid(t), a.attempt, len(out), shown)
				}
			}
		}
	}
}

func (r *run) obs(res *verifrt.Result) Obs {
	o := Obs{Status: res.Status, Peak: r.peak}
	var st, at []string
	for t := 0; t < r.sc.N; t++ {
		if len(r.attempts[t]) > 0 {
			st = append(st, tid(t))
			at = append(at, fmt.Sprintf("%s%d", tid(t), len(r.attempts[t])))
		}
	}
	o.Started = strings.Join(st, "")
	o.Attempts = strings.Join(at, "")
	o.Order = strings.Join(r.order, "")
	err := r.runErr[0]
	var errs *dag.Errors
	if err == nil {
		o.ErrShape = "nil"
	} else if errors.As(err, &errs) {
		var parts []string
		for _, e := range errs.Errors {
			switch {
			case errors.Is(e, dag.ErrorTaskSkipped):
				parts = append(parts, "skipped")
			case strings.Contains(e.Error(), "cancellation"):
				parts = append(parts, "cancel")
			default:
				matched := false
				for t := range r.sentinel {
					if errors.Is(e, r.sentinel[t]) {
						parts = append(parts, "fail-"+tid(t))
						matched = true
					}
				}
				if !matched {
					parts = append(parts, "other")
				}
			}
		}
		sort.Strings(parts)
		o.ErrShape = strings.Join(parts, ",")
	} else {
		o.ErrShape = "err:" + err.Error()
	}
	return o
}
