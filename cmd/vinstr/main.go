// vinstr rewrites the current working tree of go-getoptions into an instrumented
// copy (nothing is written to the repository) and emits a `go build -overlay`
// file that maps the original paths to the rewritten files and adds the virtual
// package <module>/verifrt.
//
//	vinstr -repo /repo -rt /verif/rt -out /verif/build/<key>
//
// Exit status 2 and a line INSTRUMENT-UNSUPPORTED on constructs it cannot model.
package main

import (
	"bytes"
	"encoding/json"
	"flag"
	"fmt"
	"go/ast"
	"go/build"
	"go/importer"
	"go/parser"
	"go/token"
	"go/types"
	"os"
	"path/filepath"
	"sort"
	"strings"
)

const modPath = "github.com/DavidGamba/go-getoptions"

var pkgDirs = []string{".", "internal/option", "internal/help", "internal/sliceiterator", "dag"}

type edit struct {
	pos, end int // byte offsets; pos == end: insertion
	text     string
	seq      int
}

type fileInfo struct {
	path string
	src  []byte
	ast  *ast.File
}

type pkgInfo struct {
	dir   string
	files []*fileInfo
	tpkg  *types.Package
	info  *types.Info
}

var (
	fset     = token.NewFileSet()
	repo     string
	pkgs     = map[string]*pkgInfo{}
	stdImp   types.ImporterFrom
	unsupp   []string
	editSeq  int
	selCount int
)

func fail(format string, a ...any) {
	fmt.Fprintf(os.Stderr, "vinstr: "+format+"\n", a...)
	os.Exit(2)
}

type modImporter struct{}

func (modImporter) Import(path string) (*types.Package, error) {
	return modImporter{}.ImportFrom(path, "", 0)
}

func (modImporter) ImportFrom(path, dir string, mode types.ImportMode) (*types.Package, error) {
	if path == modPath || strings.HasPrefix(path, modPath+"/") {
		rel := strings.TrimPrefix(strings.TrimPrefix(path, modPath), "/")
		if rel == "" {
			rel = "."
		}
		p, err := loadPkg(rel)
		if err != nil {
			return nil, err
		}
		return p.tpkg, nil
	}
	return stdImp.ImportFrom(path, dir, mode)
}

func loadPkg(rel string) (*pkgInfo, error) {
	if p, ok := pkgs[rel]; ok {
		if p.tpkg == nil {
			return nil, fmt.Errorf("import cycle through %s", rel)
		}
		return p, nil
	}
	p := &pkgInfo{dir: rel}
	pkgs[rel] = p
	dir := filepath.Join(repo, rel)
	ents, err := os.ReadDir(dir)
	if err != nil {
		return nil, err
	}
	var asts []*ast.File
	for _, e := range ents {
		n := e.Name()
		if e.IsDir() || !strings.HasSuffix(n, ".go") || strings.HasSuffix(n, "_test.go") {
			continue
		}
		ok, err := build.Default.MatchFile(dir, n)
		if err != nil || !ok {
			continue
		}
		full := filepath.Join(dir, n)
		src, err := os.ReadFile(full)
		if err != nil {
			return nil, err
		}
		f, err := parser.ParseFile(fset, full, src, parser.ParseComments)
		if err != nil {
			return nil, err
		}
		p.files = append(p.files, &fileInfo{path: full, src: src, ast: f})
		asts = append(asts, f)
	}
	p.info = &types.Info{Types: map[ast.Expr]types.TypeAndValue{}, Uses: map[*ast.Ident]types.Object{}, Defs: map[*ast.Ident]types.Object{}}
	conf := types.Config{Importer: modImporter{}, GoVersion: "go1.23"}
	ipath := modPath
	if rel != "." {
		ipath += "/" + rel
	}
	tp, err := conf.Check(ipath, fset, asts, p.info)
	if err != nil {
		return nil, fmt.Errorf("type-check %s: %v", rel, err)
	}
	p.tpkg = tp
	return p, nil
}

func main() {
	rt := flag.String("rt", "", "directory holding the verifrt sources")
	out := flag.String("out", "", "output directory")
	extra := flag.String("extra", "", "directory with extra files to add to the root package")
	flag.StringVar(&repo, "repo", "/repo", "repository working tree")
	flag.Parse()
	if *rt == "" || *out == "" {
		fail("usage: vinstr -repo DIR -rt DIR -out DIR")
	}
	var err error
	repo, err = filepath.Abs(repo)
	if err != nil {
		fail("%v", err)
	}
	oldLoopVars = goModBefore122(repo)
	stdImp = importer.ForCompiler(fset, "source", nil).(types.ImporterFrom)
	overlay := map[string]string{}
	for _, d := range pkgDirs {
		p, err := loadPkg(d)
		if err != nil {
			fail("%v", err)
		}
		for _, f := range p.files {
			res := instrument(p, f)
			rel, _ := filepath.Rel(repo, f.path)
			dst := filepath.Join(*out, "src", rel)
			if err := os.MkdirAll(filepath.Dir(dst), 0o755); err != nil {
				fail("%v", err)
			}
			if err := os.WriteFile(dst, res, 0o644); err != nil {
				fail("%v", err)
			}
			overlay[f.path] = dst
		}
	}
	if len(unsupp) > 0 {
		for _, u := range unsupp {
			fmt.Println("INSTRUMENT-UNSUPPORTED " + u)
		}
		os.Exit(2)
	}
	// virtual packages
	addDir := func(srcDir, dstRel string) {
		ents, err := os.ReadDir(srcDir)
		if err != nil {
			fail("%v", err)
		}
		for _, e := range ents {
			if e.IsDir() || !strings.HasSuffix(e.Name(), ".go") || strings.HasSuffix(e.Name(), "_test.go") {
				continue
			}
			abs, _ := filepath.Abs(filepath.Join(srcDir, e.Name()))
			overlay[filepath.Join(repo, dstRel, e.Name())] = abs
		}
	}
	addDir(*rt, "verifrt")
	addDir(filepath.Join(*rt, "vsync"), "verifrt/vsync")
	if *extra != "" {
		addDir(*extra, ".")
	}
	js, _ := json.MarshalIndent(map[string]any{"Replace": overlay}, "", " ")
	if err := os.WriteFile(filepath.Join(*out, "overlay.json"), js, 0o644); err != nil {
		fail("%v", err)
	}
}

func (f *fileInfo) off(p token.Pos) int { return fset.Position(p).Offset }

func (f *fileInfo) text(n ast.Node) string { return string(f.src[f.off(n.Pos()):f.off(n.End())]) }

func isMap(p *pkgInfo, e ast.Expr) bool {
	tv, ok := p.info.Types[e]
	if !ok || tv.Type == nil {
		return false
	}
	_, ok = tv.Type.Underlying().(*types.Map)
	return ok
}

func isBuiltin(p *pkgInfo, id *ast.Ident, name string) bool {
	if id.Name != name {
		return false
	}
	_, ok := p.info.Uses[id].(*types.Builtin)
	return ok
}

func pkgOf(p *pkgInfo, e ast.Expr) string {
	id, ok := e.(*ast.Ident)
	if !ok {
		return ""
	}
	if pn, ok := p.info.Uses[id].(*types.PkgName); ok {
		return pn.Imported().Path()
	}
	return ""
}

func containsArrow(n ast.Node) bool {
	found := false
	ast.Inspect(n, func(x ast.Node) bool {
		switch y := x.(type) {
		case *ast.UnaryExpr:
			if y.Op == token.ARROW {
				found = true
			}
		case *ast.SendStmt:
			found = true
		}
		return !found
	})
	return found
}

// oldLoopVars: the repository's go.mod selects a language version before 1.22, in which the variables a for
// statement declares are shared by all iterations.  The generated files carry a go1.23 build constraint (they use
// generics and range-over-func), which would silently switch them to per-iteration variables; T9 restores the
// repository's semantics for every loop whose variables are captured by a function literal or have their address taken.
var oldLoopVars = true

func goModBefore122(repo string) bool {
	data, err := os.ReadFile(filepath.Join(repo, "go.mod"))
	if err != nil {
		return true
	}
	for _, l := range strings.Split(string(data), "\n") {
		l = strings.TrimSpace(l)
		if strings.HasPrefix(l, "go ") {
			var maj, min int
			fmt.Sscanf(strings.TrimPrefix(l, "go "), "%d.%d", &maj, &min)
			return maj == 1 && min < 22
		}
	}
	return true
}

// loopVarsCaptured reports whether one of the objects is referenced inside a function literal in body
// or is (the root of) the operand of an address-of operator there.
func loopVarsCaptured(p *pkgInfo, objs []types.Object, nodes ...ast.Node) bool {
	isObj := func(id *ast.Ident) bool {
		o := p.info.Uses[id]
		for _, x := range objs {
			if x != nil && o == x {
				return true
			}
		}
		return false
	}
	found := false
	for _, body := range nodes {
		if body == nil || found {
			continue
		}
		ast.Inspect(body, func(n ast.Node) bool {
			if found {
				return false
			}
			switch x := n.(type) {
			case *ast.FuncLit:
				ast.Inspect(x, func(m ast.Node) bool {
					if id, ok := m.(*ast.Ident); ok && isObj(id) {
						found = true
					}
					return !found
				})
				return false
			case *ast.UnaryExpr:
				if x.Op == token.AND {
					e := x.X
					for {
						switch y := e.(type) {
						case *ast.ParenExpr:
							e = y.X
							continue
						case *ast.SelectorExpr:
							e = y.X
							continue
						case *ast.IndexExpr:
							e = y.X
							continue
						}
						break
					}
					if id, ok := e.(*ast.Ident); ok && isObj(id) {
						found = true
					}
				}
			}
			return !found
		})
	}
	return found
}

// plainExpr: the expression contains nothing the instrumenter rewrites (so its source text can be moved).
func plainExpr(p *pkgInfo, e ast.Expr) bool {
	ok := true
	ast.Inspect(e, func(n ast.Node) bool {
		switch x := n.(type) {
		case *ast.FuncLit:
			ok = false
		case *ast.UnaryExpr:
			if x.Op == token.ARROW {
				ok = false
			}
		case *ast.CallExpr:
			if id, isId := x.Fun.(*ast.Ident); isId && (isBuiltin(p, id, "close") || isBuiltin(p, id, "make")) {
				ok = false
			}
			if se, isSel := x.Fun.(*ast.SelectorExpr); isSel && pkgOf(p, se.X) == "time" {
				ok = false
			}
		}
		return ok
	})
	return ok
}

var loopSeq int

func instrument(p *pkgInfo, f *fileInfo) []byte {
	var edits []edit
	add := func(pos, end int, text string) {
		editSeq++
		edits = append(edits, edit{pos, end, text, editSeq})
	}
	ins := func(at token.Pos, text string) { o := f.off(at); add(o, o, text) }
	repl := func(from, to token.Pos, text string) { add(f.off(from), f.off(to), text) }
	where := func(n ast.Node) string {
		ps := fset.Position(n.Pos())
		rel, _ := filepath.Rel(repo, ps.Filename)
		return fmt.Sprintf("%s:%d", rel, ps.Line)
	}
	handled := map[ast.Node]bool{}
	usesTime := false
	labeled := map[ast.Stmt]bool{}
	ast.Inspect(f.ast, func(n ast.Node) bool {
		if l, ok := n.(*ast.LabeledStmt); ok {
			labeled[l.Stmt] = true
		}
		return true
	})
	defObjs := func(es ...ast.Expr) []types.Object {
		var out []types.Object
		for _, e := range es {
			if id, ok := e.(*ast.Ident); ok && id.Name != "_" {
				if o := p.info.Defs[id]; o != nil {
					out = append(out, o)
				}
			}
		}
		return out
	}

	// imports
	for _, is := range f.ast.Imports {
		path := strings.Trim(is.Path.Value, `"`)
		switch path {
		case "sync":
			name := "sync"
			if is.Name != nil {
				name = is.Name.Name
			}
			if is.Name != nil {
				repl(is.Name.Pos(), is.Path.End(), name+` "`+modPath+`/verifrt/vsync"`)
			} else {
				repl(is.Path.Pos(), is.Path.End(), name+` "`+modPath+`/verifrt/vsync"`)
			}
		case "sync/atomic", "unsafe", "reflect":
			if p.dir == "dag" {
				unsupp = append(unsupp, fmt.Sprintf("%s: import %s is not modelled", where(is), path))
			}
		case "time":
			usesTime = true
		}
	}

	ast.Inspect(f.ast, func(n ast.Node) bool {
		switch x := n.(type) {
		case *ast.RangeStmt:
			if oldLoopVars && x.Tok == token.DEFINE {
				if objs := defObjs(x.Key, x.Value); len(objs) > 0 && loopVarsCaptured(p, objs, x.Body) {
					// T9: shared loop variables
					zero := ""
					if tv, ok := p.info.Types[x.X]; ok && tv.Type != nil {
						switch u := tv.Type.Underlying().(type) {
						case *types.Map:
							zero = "ZeroKV"
						case *types.Slice:
							zero = "ZeroIE"
						case *types.Basic:
							if u.Info()&types.IsString != 0 {
								zero = "ZeroStr"
							}
						}
					}
					if zero == "" || labeled[x] || !plainExpr(p, x.X) {
						unsupp = append(unsupp, fmt.Sprintf("%s: range loop whose variables are captured (shared-variable semantics of go < 1.22) has a form the instrumenter cannot rewrite", where(x)))
					} else {
						loopSeq++
						tmp := fmt.Sprintf("_vrx%d", loopSeq)
						k, v := "_", "_"
						if x.Key != nil {
							k = f.text(x.Key)
						}
						if x.Value != nil {
							v = f.text(x.Value)
						}
						rng := tmp
						if zero == "ZeroKV" {
							rng = "verifrt.RangeMap(" + tmp + ")"
						}
						hdr := fmt.Sprintf("{ %s := %s; %s, %s := verifrt.%s(%s); for %s, %s = range %s ", tmp, f.text(x.X), k, v, zero, tmp, k, v, rng)
						if k == "_" && v != "_" {
							hdr = fmt.Sprintf("{ %s := %s; _, %s := verifrt.%s(%s); for _, %s = range %s ", tmp, f.text(x.X), v, zero, tmp, v, rng)
						}
						if v == "_" {
							hdr = fmt.Sprintf("{ %s := %s; %s, _ := verifrt.%s(%s); for %s = range %s ", tmp, f.text(x.X), k, zero, tmp, k, rng)
						}
						repl(x.For, x.Body.Lbrace, hdr)
						ins(x.Body.Lbrace+1, " verifrt.Tick();")
						ins(x.End(), " }")
						fmt.Fprintf(os.Stderr, "vinstr: T9 shared loop variables kept at %s\n", where(x))
						return true // the moved range expression contains nothing that is rewritten (plainExpr)
					}
				}
			}
			if isMap(p, x.X) {
				ins(x.X.Pos(), "verifrt.RangeMap(")
				ins(x.X.End(), ")")
			} else if tv, ok := p.info.Types[x.X]; ok && tv.Type != nil {
				if _, isChan := tv.Type.Underlying().(*types.Chan); isChan {
					unsupp = append(unsupp, fmt.Sprintf("%s: range over channel is not modelled", where(x)))
				}
			}
			ins(x.Body.Lbrace+1, " verifrt.Tick();")
		case *ast.ForStmt:
			if oldLoopVars {
				if as, ok := x.Init.(*ast.AssignStmt); ok && as.Tok == token.DEFINE {
					if objs := defObjs(as.Lhs...); len(objs) > 0 && loopVarsCaptured(p, objs, x.Body, x.Post, x.Cond) {
						if labeled[x] {
							unsupp = append(unsupp, fmt.Sprintf("%s: labelled for loop whose variables are captured (shared-variable semantics of go < 1.22)", where(x)))
						} else {
							// T9: `for i := a; c; p {` -> `{ i := a; for ; c; p {`  ...  `}`
							ins(x.For, "{ ")
							repl(x.For, x.Init.Pos(), "")
							ins(x.Init.End(), "; for ")
							ins(x.End(), " }")
							fmt.Fprintf(os.Stderr, "vinstr: T9 shared loop variables kept at %s\n", where(x))
						}
					}
				}
			}
			ins(x.Body.Lbrace+1, " verifrt.Tick();")
		case *ast.GoStmt:
			call := x.Call
			if call.Ellipsis.IsValid() {
				unsupp = append(unsupp, fmt.Sprintf("%s: go statement with variadic spread", where(x)))
				return true
			}
			repl(x.Go, call.Fun.Pos(), "verifrt.Go(func() func() { _vf := ")
			names := []string{}
			if len(call.Args) == 0 {
				repl(call.Lparen, call.Rparen+1, "; return func() { _vf() } }())")
				return true
			}
			for i, a := range call.Args {
				nm := fmt.Sprintf("_va%d", i)
				names = append(names, nm)
				if i == 0 {
					repl(call.Lparen, a.Pos(), "; "+nm+" := ")
				} else {
					repl(call.Args[i-1].End(), a.Pos(), "; "+nm+" := ")
				}
			}
			repl(call.Args[len(call.Args)-1].End(), call.Rparen+1, "; return func() { _vf("+strings.Join(names, ", ")+") } }())")
		case *ast.SendStmt:
			if handled[x] {
				return true
			}
			ins(x.Pos(), "verifrt.Send(")
			repl(x.Arrow, x.Arrow+2, ",")
			ins(x.End(), ")")
		case *ast.UnaryExpr:
			if x.Op != token.ARROW || handled[x] {
				return true
			}
			repl(x.OpPos, x.OpPos+2, "verifrt.Recv(")
			ins(x.End(), ")")
		case *ast.AssignStmt:
			if len(x.Lhs) == 2 && len(x.Rhs) == 1 {
				if u, ok := x.Rhs[0].(*ast.UnaryExpr); ok && u.Op == token.ARROW && !handled[u] {
					handled[u] = true
					repl(u.OpPos, u.OpPos+2, "verifrt.Recv2(")
					ins(u.End(), ")")
				}
			}
		case *ast.ValueSpec:
			if len(x.Names) == 2 && len(x.Values) == 1 {
				if u, ok := x.Values[0].(*ast.UnaryExpr); ok && u.Op == token.ARROW && !handled[u] {
					handled[u] = true
					repl(u.OpPos, u.OpPos+2, "verifrt.Recv2(")
					ins(u.End(), ")")
				}
			}
		case *ast.CallExpr:
			if id, ok := x.Fun.(*ast.Ident); ok {
				if isBuiltin(p, id, "close") {
					repl(id.Pos(), id.End(), "verifrt.Close")
				}
				if isBuiltin(p, id, "make") && len(x.Args) > 0 {
					if tv, ok := p.info.Types[x.Args[0]]; ok && tv.Type != nil {
						if _, isChan := tv.Type.Underlying().(*types.Chan); isChan {
							ins(x.Pos(), "verifrt.RegChan(")
							ins(x.End(), ")")
						}
					}
				}
			}
			if se, ok := x.Fun.(*ast.SelectorExpr); ok && pkgOf(p, se.X) == "time" {
				switch se.Sel.Name {
				case "Sleep", "Now", "Since":
					repl(se.Pos(), se.End(), "verifrt."+se.Sel.Name)
				case "Tick":
					repl(se.Pos(), se.End(), "verifrt.TimeTick")
				case "After", "NewTimer":
					if p.dir == "dag" {
						repl(se.Pos(), se.End(), "verifrt."+se.Sel.Name)
					}
				case "NewTicker", "AfterFunc":
					if p.dir == "dag" {
						unsupp = append(unsupp, fmt.Sprintf("%s: time.%s is not modelled", where(x), se.Sel.Name))
					}
				}
			}
		case *ast.SelectStmt:
			selCount++
			sel := fmt.Sprintf("_vsel%d", selCount)
			hasDefault := false
			var cases []string
			idx := 0
			for _, st := range x.Body.List {
				cc := st.(*ast.CommClause)
				if cc.Comm == nil {
					hasDefault = true
					continue
				}
				var recv *ast.UnaryExpr
				var lhs string
				two := false
				switch c := cc.Comm.(type) {
				case *ast.ExprStmt:
					recv, _ = c.X.(*ast.UnaryExpr)
				case *ast.AssignStmt:
					if len(c.Rhs) == 1 {
						recv, _ = c.Rhs[0].(*ast.UnaryExpr)
					}
					var ls []string
					for _, l := range c.Lhs {
						ls = append(ls, f.text(l))
					}
					two = len(c.Lhs) == 2
					lhs = strings.Join(ls, ", ") + " " + c.Tok.String() + " "
				case *ast.SendStmt:
					handled[c] = true
					if containsArrow(c.Chan) || containsArrow(c.Value) {
						unsupp = append(unsupp, fmt.Sprintf("%s: nested channel operation in select case", where(cc)))
						continue
					}
					cases = append(cases, "verifrt.SendCase("+f.text(c.Chan)+", "+f.text(c.Value)+")")
					repl(cc.Case, cc.Colon+1, fmt.Sprintf("case %d:", idx))
					idx++
					continue
				}
				if recv == nil || recv.Op != token.ARROW {
					unsupp = append(unsupp, fmt.Sprintf("%s: unsupported select case", where(cc)))
					continue
				}
				handled[recv] = true
				if containsArrow(recv.X) {
					unsupp = append(unsupp, fmt.Sprintf("%s: nested channel operation in select case", where(cc)))
					continue
				}
				chText := f.text(recv.X)
				cases = append(cases, "verifrt.RecvCase("+chText+")")
				txt := fmt.Sprintf("case %d:", idx)
				if lhs != "" {
					switch recv.X.(type) {
					case *ast.Ident, *ast.SelectorExpr:
					default:
						unsupp = append(unsupp, fmt.Sprintf("%s: select case receives a value from a non-trivial channel expression", where(cc)))
					}
					fn := "SelRecv"
					if two {
						fn = "SelRecv2"
					}
					txt += fmt.Sprintf(" %sverifrt.%s(%s, %s);", lhs, fn, sel, chText)
				}
				repl(cc.Case, cc.Colon+1, txt)
				idx++
			}
			hd := "false"
			if hasDefault {
				hd = "true"
			}
			args := hd
			if len(cases) > 0 {
				args += ", " + strings.Join(cases, ", ")
			}
			repl(x.Select, x.Select+token.Pos(len("select")), fmt.Sprintf("switch %s := verifrt.Select(%s); %s.I", sel, args, sel))
			if !hasDefault {
				// a select without default is a terminating statement when all its cases are; a switch needs a
				// default clause for that (verifrt.Select never returns an index outside the cases here)
				ins(x.Body.Rbrace, "default: panic(\"verifrt: select returned no case\")\n")
			}
		}
		return true
	})

	// header: build constraint + import of the runtime
	pkgEnd := f.off(f.ast.Name.End())
	add(pkgEnd, pkgEnd, "\nimport verifrt \""+modPath+"/verifrt\"\n")
	tail := "\nvar _ = verifrt.Tick\n"
	if usesTime {
		tail += "var _ time.Duration\n"
	}
	add(len(f.src), len(f.src), tail)

	// apply edits (ascending position; insertions at equal position in creation order)
	sort.SliceStable(edits, func(i, j int) bool {
		if edits[i].pos != edits[j].pos {
			return edits[i].pos < edits[j].pos
		}
		// insertions before replacements starting at the same offset
		ei, ej := edits[i].pos == edits[i].end, edits[j].pos == edits[j].end
		if ei != ej {
			return ei
		}
		return edits[i].seq < edits[j].seq
	})
	var buf bytes.Buffer
	cur := 0
	for _, e := range edits {
		if e.pos < cur {
			fail("overlapping edits in %s at offset %d (%q)", f.path, e.pos, e.text)
		}
		buf.Write(f.src[cur:e.pos])
		buf.WriteString(e.text)
		cur = e.end
	}
	buf.Write(f.src[cur:])
	res := buf.Bytes()

	// build constraint
	hdr := "//go:build go1.23\n\n"
	lines := strings.SplitN(string(res), "\npackage ", 2)
	if len(lines) == 2 && strings.Contains(lines[0], "//go:build") {
		var outl []string
		for _, l := range strings.Split(lines[0], "\n") {
			if strings.HasPrefix(l, "//go:build ") {
				l = "//go:build (" + strings.TrimPrefix(l, "//go:build ") + ") && go1.23"
			}
			outl = append(outl, l)
		}
		return []byte(strings.Join(outl, "\n") + "\npackage " + lines[1])
	}
	return append([]byte(hdr), res...)
}
