package main

import (
	"encoding/json"
	"fmt"
	"sort"
	"strings"

	"verif/harness/ph"
)

// parserCase is the replayable form of one input-space case.
type parserCase struct {
	Check    string            `json:"check"`
	Def      *ph.Def           `json:"def"`
	Env      map[string]string `json:"env,omitempty"`
	Argv     []string          `json:"argv"`
	Dispatch bool              `json:"dispatch,omitempty"`
	Extra    map[string]any    `json:"extra,omitempty"`
}

func (pc *parserCase) String() string {
	return fmt.Sprintf("%s argv=%q env=%v", pc.Def.ConfigString(), pc.Argv, pc.Env)
}

// sweep enumerates every argv of length <= depth over the alphabet for every definition.
// Work units (definition, first token) are claimed dynamically by the workers.
type sweep struct {
	c      *RunCtx
	defs   []*ph.Def
	alpha  []string
	depth  int
	visit  func(def *ph.Def, argv []string) // called for every node of the enumeration tree
	filter func(argv []string) bool         // optional: prune (node and subtree) when false
	ext    []string                         // further tokens that appear only in argv shorter than depth
}

func (s *sweep) run() {
	res := s.c.Res
	if len(s.ext) > 0 {
		isExt := map[string]bool{}
		for _, t := range s.ext {
			isExt[t] = true
		}
		s.alpha = append(append([]string{}, s.alpha...), s.ext...)
		s.ext = nil
		inner := s.filter
		depth := s.depth
		s.filter = func(argv []string) bool {
			if len(argv) >= depth {
				for _, t := range argv {
					if isExt[t] {
						return false
					}
				}
			}
			return inner == nil || inner(argv)
		}
	}
	nA := len(s.alpha)
	units := len(s.defs) * nA
	for {
		u := s.c.claim()
		if u >= units {
			return
		}
		if s.c.expired() {
			res.Capped = true
			return
		}
		def := s.defs[u/nA]
		first := u % nA
		if first == 0 {
			// the empty argv belongs to the first unit of every definition
			res.States++
			s.visit(def, []string{})
		}
		argv := make([]string, 0, s.depth)
		var rec func()
		rec = func() {
			if s.filter != nil && !s.filter(argv) {
				return
			}
			res.States++
			res.Transitions++
			s.visit(def, argv)
			if len(argv) == s.depth {
				return
			}
			if len(res.Violations) >= 3 || (res.States&1023 == 0 && (s.c.expired() || s.c.stopped())) {
				if s.c.expired() {
					res.Capped = true
				}
				return
			}
			for _, t := range s.alpha {
				argv = append(argv, t)
				rec()
				argv = argv[:len(argv)-1]
			}
		}
		argv = append(argv, s.alpha[first])
		rec()
	}
}

// outcomeKey is a compact fingerprint of an outcome used to count distinct behaviours.
func outcomeKey(o *ph.Outcome) uint64 {
	h := uint64(1469598103934665603)
	add := func(s string) {
		for i := 0; i < len(s); i++ {
			h ^= uint64(s[i])
			h *= 1099511628211
		}
		h ^= 0xff
		h *= 1099511628211
	}
	add(o.ParseErr)
	for _, r := range o.Remaining {
		add(r)
	}
	keys := make([]string, 0, len(o.Vals))
	for k := range o.Vals {
		keys = append(keys, k)
	}
	sort.Strings(keys)
	for _, k := range keys {
		add(o.Vals[k])
		if o.Called[k] {
			add("c" + o.CalledAs[k])
		}
	}
	add(o.Warnings)
	add(o.DErr)
	for _, c := range o.Calls {
		add(c.Path)
	}
	return h
}

type distinctSet map[uint64]struct{}

func (d distinctSet) add(k uint64) { d[k] = struct{}{} }

func newCase(check string, def *ph.Def, env map[string]string, argv []string, dispatch bool) json.RawMessage {
	pc := parserCase{Check: check, Def: def, Env: env, Argv: append([]string{}, argv...), Dispatch: dispatch}
	raw, _ := json.Marshal(pc)
	return raw
}

// goTest renders a plain unit test that reproduces a case against the public API.
func goTest(def *ph.Def, env map[string]string, argv []string, note string) string {
	var b strings.Builder
	fmt.Fprintf(&b, "// %s\nfunc TestReplay(t *testing.T) {\n", note)
	for k, v := range env {
		fmt.Fprintf(&b, "\tt.Setenv(%q, %q)\n", k, v)
	}
	b.WriteString("\topt := getoptions.New()\n")
	fmt.Fprintf(&b, "\topt.SetMode(getoptions.Mode(%d)); opt.SetUnknownMode(getoptions.UnknownMode(%d))\n", def.Mode, def.Unknown)
	if def.RequireOrder {
		b.WriteString("\topt.SetRequireOrder()\n")
	}
	var decl func(v string, cd *ph.CmdDef)
	decl = func(v string, cd *ph.CmdDef) {
		for _, o := range cd.Opts {
			mods := ""
			if len(o.Aliases) > 0 {
				mods += fmt.Sprintf(", %s.Alias(%s)", v, quoteList(o.Aliases))
			}
			if o.Required {
				mods += fmt.Sprintf(", %s.Required(%q)", v, o.ReqMsg)
			}
			if o.Env != "" {
				mods += fmt.Sprintf(", %s.GetEnv(%q)", v, o.Env)
			}
			switch o.Kind {
			case ph.Bool:
				fmt.Fprintf(&b, "\t%s.Bool(%q, %v%s)\n", v, o.Name, o.DefB, mods)
			case ph.Incr:
				fmt.Fprintf(&b, "\t%s.Increment(%q, %d%s)\n", v, o.Name, o.DefI, mods)
			case ph.Str:
				fmt.Fprintf(&b, "\t%s.String(%q, %q%s)\n", v, o.Name, o.DefS, mods)
			case ph.StrOpt:
				fmt.Fprintf(&b, "\t%s.StringOptional(%q, %q%s)\n", v, o.Name, o.DefS, mods)
			case ph.Int:
				fmt.Fprintf(&b, "\t%s.Int(%q, %d%s)\n", v, o.Name, o.DefI, mods)
			case ph.IntOpt:
				fmt.Fprintf(&b, "\t%s.IntOptional(%q, %d%s)\n", v, o.Name, o.DefI, mods)
			case ph.Flt:
				fmt.Fprintf(&b, "\t%s.Float64(%q, %v%s)\n", v, o.Name, o.DefF, mods)
			case ph.FltOpt:
				fmt.Fprintf(&b, "\t%s.Float64Optional(%q, %v%s)\n", v, o.Name, o.DefF, mods)
			case ph.StrS:
				fmt.Fprintf(&b, "\t%s.StringSlice(%q, %d, %d%s)\n", v, o.Name, o.Min, o.Max, mods)
			case ph.IntS:
				fmt.Fprintf(&b, "\t%s.IntSlice(%q, %d, %d%s)\n", v, o.Name, o.Min, o.Max, mods)
			case ph.FltS:
				fmt.Fprintf(&b, "\t%s.Float64Slice(%q, %d, %d%s)\n", v, o.Name, o.Min, o.Max, mods)
			case ph.Map:
				fmt.Fprintf(&b, "\t%s.StringMap(%q, %d, %d%s)\n", v, o.Name, o.Min, o.Max, mods)
			}
		}
		for i, k := range cd.Cmds {
			kv := fmt.Sprintf("%s_%d", v, i)
			fmt.Fprintf(&b, "\t%s := %s.NewCommand(%q, %q)\n", kv, v, k.Name, k.Desc)
			if k.Unset {
				fmt.Fprintf(&b, "\t%s.UnsetOptions()\n", kv)
			}
			if k.Unknown > 0 {
				fmt.Fprintf(&b, "\t%s.SetUnknownMode(getoptions.UnknownMode(%d))\n", kv, k.Unknown-1)
			}
			if !k.NoFn {
				fmt.Fprintf(&b, "\t%s.SetCommandFn(func(ctx context.Context, o *getoptions.GetOpt, args []string) error { t.Logf(\"%s ran with %%q\", args); return nil })\n", kv, k.Name)
			}
			decl(kv, k)
		}
	}
	decl("opt", &def.Root)
	if def.Help != "" {
		fmt.Fprintf(&b, "\topt.HelpCommand(%q)\n", def.Help)
	}
	fmt.Fprintf(&b, "\tremaining, err := opt.Parse([]string{%s})\n\tt.Logf(\"remaining=%%q err=%%v\", remaining, err)\n\t// %s\n}\n", quoteList(argv), note)
	return b.String()
}

func quoteList(ss []string) string {
	q := make([]string, len(ss))
	for i, s := range ss {
		q[i] = fmt.Sprintf("%q", s)
	}
	return strings.Join(q, ", ")
}

// replayParser re-executes a parser case and prints expectation and observation.
func replayParser(raw json.RawMessage) (string, error) {
	var pc parserCase
	if err := json.Unmarshal(raw, &pc); err != nil {
		return "", err
	}
	fn, ok := parserJudges[pc.Check]
	if !ok {
		return "", fmt.Errorf("no judge registered for %q", pc.Check)
	}
	msgs := fn(&pc, true)
	return strings.Join(msgs, "; "), nil
}

// parserJudges maps a check name to the function judging a single case (verbose prints details).
var parserJudges = map[string]func(pc *parserCase, verbose bool) []string{}

func jsonMarshal(v any) (json.RawMessage, error) {
	b, err := json.Marshal(v)
	return json.RawMessage(b), err
}
