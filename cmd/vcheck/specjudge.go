package main

import (
	"fmt"
	"sort"
	"strings"

	"verif/harness/ph"
)

type specInfo struct {
	inDomain bool
	ex       *ph.Expect
	o        *ph.Outcome
}

// judgeSpec runs the real parser and the reference model on one case and compares the chosen facets.
func judgeSpec(pc *parserCase, f ph.Facets, verbose bool) ([]string, specInfo) {
	p := ph.Build(pc.Def, pc.Env)
	defer p.Close()
	o := p.Run(pc.Argv, pc.Dispatch)
	ex := ph.SpecParse(pc.Def, pc.Env, pc.Argv)
	info := specInfo{ex: ex, o: o}
	if verbose {
		printCase(pc, o, ex)
	}
	if o.Panic != "" || o.Hang {
		return nil, info // C19 reports these
	}
	if len(ex.Unspec) > 0 {
		return nil, info
	}
	info.inDomain = true
	return ph.Compare(ex, o, f), info
}

func printCase(pc *parserCase, o *ph.Outcome, ex *ph.Expect) {
	fmt.Printf("config    : %s\nargv      : %q\nenv       : %v\n", pc.Def.ConfigString(), pc.Argv, pc.Env)
	fmt.Printf("observed  : err=%q remaining=%q warnings=%q\n", o.ParseErr, o.Remaining, o.Warnings)
	fmt.Printf("reference : err=%v kind=%s name=%q remaining=%q unspecified=%v level=%q\n", ex.Err, ex.ErrKind, ex.ErrName, ex.Remaining, ex.Unspec, ex.Level)
	keys := make([]string, 0, len(o.Vals))
	for k := range o.Vals {
		keys = append(keys, k)
	}
	sort.Strings(keys)
	for _, k := range keys {
		fmt.Printf("  %-12s observed %-24s called=%-5v as=%-8q | reference %-24s called=%-5v as=%q\n", k, o.Vals[k], o.Called[k], o.CalledAs[k], ex.Vals[k], ex.Called[k], ex.CalledAs[k])
	}
	if o.Dispatched {
		fmt.Printf("dispatch  : err=%q calls=%d writer=%q\n", o.DErr, len(o.Calls), abbreviate(o.WDispatch, 120))
		for _, c := range o.Calls {
			fmt.Printf("  CommandFn %q args=%q\n", c.Path, c.Args)
		}
	}
}

func abbreviate(s string, n int) string {
	if len(s) > n {
		return s[:n] + "..."
	}
	return s
}

// specSweepCheck registers a check that sweeps argv over an alphabet and compares with the reference model.
type specSweepCheck struct {
	id       string
	name     string // judge name (defaults to id)
	rule     string
	defs     func(tier string) []*ph.Def
	alpha    []string
	alphaExt []string // further tokens that appear only in argv shorter than the full depth
	depthQ   int
	depthT   int
	facets   ph.Facets
	dispatch bool
	// extra adds property-specific (often model-free) oracles; returns messages and counter names to bump.
	extra func(pc *parserCase, info specInfo) (msgs []string, counters []string)
	// only keeps the messages that belong to this property.
	keep  func(msg string) bool
	gates []string
}

func (sc *specSweepCheck) judge(pc *parserCase, verbose bool) []string {
	pc.Dispatch = sc.dispatch
	msgs, info := judgeSpec(pc, sc.facets, verbose)
	if sc.extra != nil {
		m2, _ := sc.extra(pc, info)
		msgs = append(msgs, m2...)
	}
	if sc.keep != nil {
		var kept []string
		for _, m := range msgs {
			if sc.keep(m) {
				kept = append(kept, m)
			}
		}
		msgs = kept
	}
	return msgs
}

func (sc *specSweepCheck) register() {
	name := sc.name
	if name == "" {
		name = sc.id
	}
	parserJudges[name] = sc.judge
	register(&Check{
		ID:        sc.id,
		QuickSecs: 900, ThoroSecs: 3000,
		Rule:   sc.rule,
		Assume: []string{"tokens outside the stated alphabet and argv longer than L are not covered", "cases inside the closed list of unspecified zones (DESIGN.md section 3) are executed (no panic, no hang) but not compared"},
		Run: func(c *RunCtx) {
			depth := sc.depthQ
			if c.Tier == "thorough" {
				depth = sc.depthT
			}
			defs := sc.defs(c.Tier)
			c.Res.Bounds = map[string]any{"L": depth, "alphabet": sc.alpha, "definitions": len(defs)}
			dist := distinctSet{}
			sw := &sweep{c: c, defs: defs, alpha: sc.alpha, depth: depth}
			if len(sc.alphaExt) > 0 {
				c.Res.Bounds["alphabet_extension_for_argv_shorter_than_L"] = sc.alphaExt
				sw.ext = sc.alphaExt
			}
			sw.visit = func(def *ph.Def, argv []string) {
				res := c.Res
				pc := &parserCase{Check: name, Def: def, Argv: argv, Dispatch: sc.dispatch}
				res.Evaluations++
				res.Traces++
				msgs, info := judgeSpec(pc, sc.facets, false)
				if info.inDomain {
					res.count("in_domain_cases", 1)
					dist.add(outcomeKey(info.o))
					if info.ex.Err {
						res.count("in_domain_cases_expected_to_fail", 1)
					}
				}
				if sc.extra != nil {
					m2, cs := sc.extra(pc, info)
					msgs = append(msgs, m2...)
					for _, cn := range cs {
						res.count(cn, 1)
					}
				}
				for _, m := range msgs {
					if sc.keep != nil && !sc.keep(m) {
						continue
					}
					res.violate(Violation{Prop: sc.id, Msg: fmt.Sprintf("%s  [%s argv=%q]", m, def.ConfigString(), argv), Case: newCase(name, def, nil, argv, sc.dispatch), Weight: len(argv), Known: knownSig(sc.id, m, pc),
						Test: goTest(def, nil, argv, m)})
					break
				}
				if res.Evaluations%100000 == 1 {
					res.sample(map[string]any{"config": def.ConfigString(), "argv": append([]string{}, argv...), "in_domain": info.inDomain})
				}
			}
			sw.run()
			c.Res.Distinct = c.Res.Counters["in_domain_cases"]
			c.Res.count("distinct_outcome_fingerprints_summed_over_workers", int64(len(dist)))
		},
		Replay:     replayParser,
		GateCounts: append([]string{"in_domain_cases"}, sc.gates...),
	})
}

func hasPrefixAny(s string, ps ...string) bool {
	for _, p := range ps {
		if strings.HasPrefix(s, p) {
			return true
		}
	}
	return false
}
