package main

import (
	"fmt"
	"strings"

	"verif/harness/ph"
)

// tree shapes: depth <= 2, fan-out <= 2, wrapper and missing-CommandFn variants
func defsC10(tier string) []*ph.Def {
	type ck struct {
		nsub  int
		kind  int // 0 normal, 1 wrapper, 2 no fn
		subNo int // bitmask: sub i has no CommandFn
	}
	var kinds []ck
	for kind := 0; kind < 3; kind++ {
		kinds = append(kinds, ck{0, kind, 0})
		for mask := 0; mask < 2; mask++ {
			kinds = append(kinds, ck{1, kind, mask})
		}
		for mask := 0; mask < 4; mask++ {
			kinds = append(kinds, ck{2, kind, mask})
		}
	}
	mk := func(name string, k ck) *ph.CmdDef {
		c := &ph.CmdDef{Name: name, Opts: []ph.OptDef{{Name: "ca", Kind: ph.Bool}, {Name: "cs", Kind: ph.Str, DefS: "CD"}}}
		c.Unset = k.kind == 1
		c.NoFn = k.kind == 2
		for i := 0; i < k.nsub; i++ {
			s := &ph.CmdDef{Name: fmt.Sprintf("s%d", i+1), Opts: []ph.OptDef{{Name: "sa", Kind: ph.Bool}}}
			s.NoFn = k.subNo&(1<<i) != 0
			c.Cmds = append(c.Cmds, s)
		}
		return c
	}
	var out []*ph.Def
	add := func(cmds []*ph.CmdDef, rootNoFn bool) {
		for mode := 0; mode < 3; mode++ {
			for _, ro := range []bool{false, true} {
				if ro && mode != 0 && tier != "thorough" {
					continue
				}
				unknown := 2
				if ro && mode == 0 {
					unknown = 1 // require-order with warnings: an unknown option is a stop point like any other
				}
				d := &ph.Def{Mode: mode, Unknown: unknown, RequireOrder: ro, Root: ph.CmdDef{Name: "prog", NoFn: rootNoFn,
					Opts: []ph.OptDef{{Name: "ra", Kind: ph.Bool}, {Name: "rs", Kind: ph.Str, DefS: "RD"}, {Name: "oo", Kind: ph.StrOpt, DefS: "OD"}, {Name: "sl", Kind: ph.StrS, Min: 1, Max: 2}, {Name: "cax", Kind: ph.Bool}, {Name: "x", Kind: ph.Bool}, {Name: "y", Kind: ph.Bool}}, // `--ca` abbreviates cax at the root and is the exact name of a command option
					Cmds: cmds}}
				out = append(out, d)
			}
		}
	}
	add(nil, false)
	add(nil, true)
	// a command with a longer name: its unique beginning is a positional, not the command
	add([]*ph.CmdDef{mk("c1", ck{1, 0, 0}), {Name: "zeta", Opts: []ph.OptDef{{Name: "za", Kind: ph.Bool}}}}, false)
	for _, k := range kinds {
		add([]*ph.CmdDef{mk("c1", k)}, false)
		add([]*ph.CmdDef{mk("c1", k), mk("c2", ck{0, 0, 0})}, false)
	}
	add([]*ph.CmdDef{mk("c1", ck{1, 0, 0})}, true)
	// SetMode called after the commands were declared: the mode is program-wide all the same
	{
		n := len(out)
		add([]*ph.CmdDef{mk("c1", ck{1, 0, 0}), mk("c2", ck{0, 0, 0})}, false)
		var late []*ph.Def
		for _, d := range out[n:] {
			if d.Mode != 0 {
				d.LateMode = true
				late = append(late, d)
			}
		}
		out = append(out[:n], late...)
	}
	// Self("", description) called on a command and on its sub-command: the name they were declared under still selects them
	{
		n := len(out)
		add([]*ph.CmdDef{mk("c1", ck{1, 0, 0}), mk("c2", ck{0, 0, 0})}, false)
		for _, d := range out[n:] {
			d.Root.Cmds[0].SelfDesc = true
			d.Root.Cmds[0].Cmds[0].SelfDesc = true
		}
	}
	// require-order set on a command only (inherited by its sub-commands, not by the root)
	for _, k := range []ck{{1, 0, 0}, {2, 0, 0}, {2, 1, 0}} {
		n := len(out)
		add([]*ph.CmdDef{mk("c1", k), mk("c2", ck{1, 0, 0})}, false)
		for _, d := range out[n:] {
			d.Root.Cmds[0].RequireOrder = true
		}
	}
	return out
}

func c10Judge(pc *parserCase, verbose bool) ([]string, map[string]bool) {
	flags := map[string]bool{}
	p := ph.Build(pc.Def, nil)
	defer p.Close()
	o := p.Run(pc.Argv, true)
	ex := ph.SpecParse(pc.Def, nil, pc.Argv)
	if verbose {
		printCase(pc, o, ex)
	}
	if o.Panic != "" || o.Hang || len(ex.Unspec) > 0 || ex.Err || o.HasErr {
		return nil, flags
	}
	if ex.HelpCalled || len(ex.Missing) > 0 {
		return nil, flags
	}
	level := ph.FindLevel(pc.Def, ex.Level)
	if level == nil {
		return nil, flags
	}
	flags["in_domain"] = true
	var out []string
	if level.NoFn {
		flags["no_fn"] = true
		if len(o.Calls) != 0 {
			out = append(out, fmt.Sprintf("dispatch: the addressed command %q has no function but %v ran", "/"+ex.Level, callPaths(o)))
		}
		if !o.DHasErr && o.WDispatch == "" {
			out = append(out, fmt.Sprintf("dispatch: the addressed command %q has no function, but Dispatch neither returned an error nor printed help", "/"+ex.Level))
		}
		return out, flags
	}
	if ex.Level != "" {
		flags["command_selected"] = true
		if strings.Contains(ex.Level, "/") {
			flags["subcommand_selected"] = true
		}
	}
	if len(o.Calls) != 1 {
		out = append(out, fmt.Sprintf("dispatch: %d command functions ran (%v), want exactly one: %q", len(o.Calls), callPaths(o), "/"+ex.Level))
		return out, flags
	}
	c := o.Calls[0]
	if c.Path != ex.Level {
		out = append(out, fmt.Sprintf("dispatch: command function %q ran, want %q (the deepest command reached by the command-name tokens)", "/"+c.Path, "/"+ex.Level))
		return out, flags
	}
	if !c.CtxOK {
		out = append(out, "dispatch: the command function did not receive the caller's context")
	}
	if !eqStr(c.Args, o.Remaining) {
		out = append(out, fmt.Sprintf("dispatch: the command function received %q, Parse returned %q", c.Args, o.Remaining))
	}
	if !eqStr(c.Args, ex.Remaining) {
		out = append(out, fmt.Sprintf("dispatch: the command function received %q, want %q", c.Args, ex.Remaining))
	}
	for _, path := range ph.VisiblePaths(pc.Def, ex.Level) {
		if c.Vals[path] != ex.Vals[path] {
			out = append(out, fmt.Sprintf("dispatch: inside %q option %s reads %s, want %s", "/"+ex.Level, path, c.Vals[path], ex.Vals[path]))
		}
		if c.Called[path] != ex.Called[path] {
			out = append(out, fmt.Sprintf("dispatch: inside %q Called(%s) is %v, want %v", "/"+ex.Level, path, c.Called[path], ex.Called[path]))
		}
	}
	if o.DHasErr {
		out = append(out, fmt.Sprintf("dispatch: Dispatch returned %q although the command function returned nil", o.DErr))
	}
	// the caller's context is handed over as it is, even when it is already cancelled (what to do about that is the
	// command's business): the same function runs once
	if len(out) == 0 && len(pc.Argv) <= 2 {
		p3 := ph.Build(pc.Def, nil)
		p3.CancelCtx()
		o3 := p3.Run(pc.Argv, true)
		p3.Close()
		flags["cancelled_context"] = true
		if o3.Panic == "" && !o3.Hang && (o3.DHasErr || len(o3.Calls) != 1 || o3.Calls[0].Path != ex.Level || !o3.Calls[0].CtxOK) {
			out = append(out, fmt.Sprintf("dispatch with an already cancelled context: %v ran (Dispatch error %q), want exactly %q receiving the caller's context", callPaths(o3), o3.DErr, "/"+ex.Level))
		}
	}
	// start from non-initial states too: the same command line given to a program object that has already served
	// another Parse+Dispatch round must run the same function, once (option values and leftovers of the earlier
	// round may persist, so only the identity and number of the functions is compared)
	if len(out) == 0 && len(pc.Argv) <= c10RoundsMaxLen {
		for _, pre := range c10Pres {
			p2 := ph.Build(pc.Def, nil)
			o1 := p2.Run(pre, true)
			if o1.Panic != "" || o1.Hang || o1.HasErr || o1.DHasErr || len(o1.Calls) != 1 {
				p2.Close()
				continue
			}
			p2.Reset()
			o2 := p2.Run(pc.Argv, true)
			p2.Close()
			flags["second_round"] = true
			if o2.Panic != "" || o2.Hang {
				continue
			}
			if o2.HasErr || o2.DHasErr || len(o2.Calls) != 1 || o2.Calls[0].Path != ex.Level {
				out = append(out, fmt.Sprintf("dispatch (second round on the same program object, after %q ran %v): %v ran (Parse error %q, Dispatch error %q), want exactly %q as on a fresh object", pre, callPaths(o1), callPaths(o2), o2.ParseErr, o2.DErr, "/"+ex.Level))
				break
			}
		}
	}
	return out, flags
}

// earlier rounds used by the second-round oracle (those that do not succeed on a definition are skipped there)
var c10Pres = [][]string{{}, {"c1"}, {"c1", "s1"}, {"c2", "p"}, {"--ra", "p"}}

const c10RoundsMaxLen = 3

func init() {
	parserJudges["C10"] = func(pc *parserCase, verbose bool) []string { m, _ := c10Judge(pc, verbose); return m }
	register(&Check{
		ID:        "C10",
		QuickSecs: 900, ThoroSecs: 3000,
		Rule: "input-space exploration: 47 command-tree shapes (depth <= 2, fan-out <= 2, options at every level, UnsetOptions wrappers, commands and root without CommandFn) x 3 modes x require-order (off, on the root, on a command only); every argv of length <= L over 15 tokens (command names, sub-command names, options of every level, an option whose value is a command name, an optional-value option with and without attached value, a []string option (1,2) whose extra value may be a command name, positional, terminator); " +
			"instrumented CommandFns record which function ran, how often, with which context, arguments and option view; compared with the reference model (deepest command on the command path, remaining arguments, parsed values of own and inherited options); every in-domain argv of length <= 3 is also given to a program object that already served one of 5 earlier Parse+Dispatch rounds and must run the same function exactly once; distinct_nontrivial = distinct in-domain cases",
		Assume: []string{"trees deeper than 2 / wider than 2 and argv longer than L are not covered", "cases where help or a missing required option intervenes belong to C11"},
		Run: func(c *RunCtx) {
			depth := 4
			if c.Tier == "thorough" {
				depth = 5
			}
			alpha := []string{"c1", "c2", "s1", "s2", "--ra", "--rs", "--rs=c1", "--oo", "--oo=x", "--ca", "--cs", "--sa", "p", "--", "--sl"}
			ext := []string{"ze", "zeta", "c", "--zz", "-ca", "-xy"} // unique and ambiguous beginnings of command names; an unknown option; single-dash spellings (`-xy`: two flags in Bundling mode, an unknown option in Normal mode)
			defs := defsC10(c.Tier)
			c.Res.Bounds = map[string]any{"L": depth, "alphabet": alpha, "definitions": len(defs)}
			sw := &sweep{c: c, defs: defs, alpha: alpha, ext: ext, depth: depth}
			sw.visit = func(def *ph.Def, argv []string) {
				res := c.Res
				pc := &parserCase{Check: "C10", Def: def, Argv: argv, Dispatch: true}
				res.Evaluations++
				res.Traces++
				msgs, flags := c10Judge(pc, false)
				if flags["in_domain"] {
					res.count("in_domain_cases", 1)
				}
				for _, k := range []string{"no_fn", "command_selected", "subcommand_selected", "second_round", "cancelled_context"} {
					if flags[k] {
						res.count("in_domain_"+k, 1)
					}
				}
				if len(msgs) > 0 {
					res.violate(Violation{Prop: "C10", Msg: fmt.Sprintf("%s  [%s tree=%s argv=%q]", msgs[0], def.ConfigString(), describeTree(&def.Root), argv), Case: newCase("C10", def, nil, argv, true), Weight: len(argv), Test: goTest(def, nil, argv, msgs[0])})
				}
				if res.Evaluations%40000 == 1 {
					res.sample(map[string]any{"config": def.ConfigString(), "tree": describeTree(&def.Root), "argv": append([]string{}, argv...)})
				}
			}
			sw.run()
			c.Res.Distinct = c.Res.Counters["in_domain_cases"]
		},
		Replay:     replayParser,
		GateCounts: []string{"in_domain_cases", "in_domain_no_fn", "in_domain_command_selected", "in_domain_subcommand_selected", "in_domain_second_round"},
	})
}

func describeTree(c *ph.CmdDef) string {
	s := c.Name
	if c.Unset {
		s += "(wrapper)"
	}
	if c.NoFn {
		s += "(nofn)"
	}
	if len(c.Cmds) > 0 {
		var ks []string
		for _, k := range c.Cmds {
			ks = append(ks, describeTree(k))
		}
		s += "{" + strings.Join(ks, " ") + "}"
	}
	return s
}
