package main

import (
	"fmt"
	"strings"

	"verif/harness/ph"
)

func defC11(mode int) *ph.Def {
	return &ph.Def{Mode: mode, Unknown: 0, Help: "help", HelpAliases: []string{"?"}, Root: ph.CmdDef{Name: "prog",
		Opts: []ph.OptDef{
			{Name: "rreq", Kind: ph.Str, Required: true, ReqMsg: "need rreq", Aliases: []string{"r1"}},
			{Name: "v", Kind: ph.Bool},
		},
		Cmds: []*ph.CmdDef{
			{Name: "c", Opts: []ph.OptDef{{Name: "creq", Kind: ph.Str, Required: true, Env: "VERIF_C11_CREQ"}},
				Cmds: []*ph.CmdDef{{Name: "e", Opts: []ph.OptDef{{Name: "ereq", Kind: ph.Int, Required: true, ReqMsg: "ereq is mandatory (100% of the time, %d or %s)"}}}}},
			{Name: "n", NoFn: true},
		},
	}}
}

// second tree: nothing required at the root, so that Parse succeeds and the check happens in Dispatch
func defC11b(mode int) *ph.Def {
	return &ph.Def{Mode: mode, Unknown: 0, Help: "help", Root: ph.CmdDef{Name: "prog",
		Opts: []ph.OptDef{{Name: "v", Kind: ph.Bool}},
		Cmds: []*ph.CmdDef{
			{Name: "c", Opts: []ph.OptDef{{Name: "creq", Kind: ph.Str, Required: true, Env: "VERIF_C11_CREQ"}, {Name: "cq2", Kind: ph.Bool, Required: true, ReqMsg: "cq2 please"}, {Name: "copt", Kind: ph.StrOpt, Required: true, DefS: "d", ReqMsg: "copt wanted"}},
				Cmds: []*ph.CmdDef{{Name: "e", Opts: []ph.OptDef{{Name: "ereq", Kind: ph.Int, Required: true, ReqMsg: "ereq is mandatory (100% of the time, %d or %s)"}}}}},
			{Name: "w", Unset: true, Unknown: 3, Opts: []ph.OptDef{{Name: "wo", Kind: ph.Bool}}},                                                   // wrapper: inherits nothing
			{Name: "p", Opts: []ph.OptDef{{Name: "preq", Kind: ph.Str, Required: true, ReqMsg: "preq needed", PreValue: []string{"from-config"}}}}, // a value seeded with SetValue is not "supplied"
		},
	}}
}

// third tree: k required options at the root, all supplied through their environment variables, and three sibling
// commands that each declare a required option of their own (per-node bookkeeping of required options must not be shared
// between siblings)
func defC11c(mode, k int) (*ph.Def, map[string]string) {
	env := map[string]string{}
	var opts []ph.OptDef
	for i := 1; i <= k; i++ {
		name := fmt.Sprintf("q%d", i)
		opts = append(opts, ph.OptDef{Name: name, Kind: ph.Str, Required: true, ReqMsg: name + " needed", Env: "VERIF_C11_Q" + fmt.Sprint(i)})
		env["VERIF_C11_Q"+fmt.Sprint(i)] = "x"
	}
	opts = append(opts, ph.OptDef{Name: "v", Kind: ph.Bool})
	return &ph.Def{Mode: mode, Unknown: 0, Help: "help", Root: ph.CmdDef{Name: "prog",
		Opts: opts,
		Cmds: []*ph.CmdDef{
			{Name: "c", Opts: []ph.OptDef{{Name: "creq", Kind: ph.Str, Required: true, ReqMsg: "creq of c", Env: "VERIF_C11_CREQ"}}},
			{Name: "e", Opts: []ph.OptDef{{Name: "ereq", Kind: ph.Int, Required: true, ReqMsg: "ereq of e"}}},
			{Name: "p", Opts: []ph.OptDef{{Name: "preq", Kind: ph.Str, Required: true, ReqMsg: "preq of p"}}},
		},
	}}, env
}

func c11Judge(pc *parserCase, verbose bool) ([]string, map[string]bool) {
	flags := map[string]bool{}
	p := ph.Build(pc.Def, pc.Env)
	defer p.Close()
	o := p.Run(pc.Argv, true)
	ex := ph.SpecParse(pc.Def, pc.Env, pc.Argv)
	if verbose {
		printCase(pc, o, ex)
		fmt.Printf("reference : help=%v missing=%v level=%q\n", ex.HelpCalled, ex.Missing, ex.Level)
	}
	if o.Panic != "" || o.Hang {
		return nil, flags
	}
	if len(ex.Unspec) == 1 && ex.Unspec[0] == "U17" && !ex.Err && !o.HasErr {
		// the help option was given above an UnsetOptions wrapper: which level's help is shown is not stated, but help
		// was requested - no user function runs and Dispatch says so
		flags["in_domain"] = true
		flags["help_above_wrapper"] = true
		var out []string
		if len(o.Calls) != 0 {
			out = append(out, fmt.Sprintf("help option given before a wrapper command: user function %v ran", callPaths(o)))
		}
		if !o.DIsHelp {
			out = append(out, fmt.Sprintf("help option given before a wrapper command: Dispatch returned %q, want ErrorHelpCalled", o.DErr))
		}
		return out, flags
	}
	if len(ex.Unspec) > 0 {
		return nil, flags
	}
	helpName := pc.Def.Help
	var out []string
	if ex.Err {
		if ex.ErrKind != "required" {
			return nil, flags // other errors are other properties' business
		}
		flags["in_domain"] = true
		flags["root_required_missing"] = true
		msgs := ph.Compare(ex, o, ph.Facets{Err: true, ErrDetail: true})
		out = append(out, msgs...)
		if len(p.Calls) > 0 {
			out = append(out, "required: a command function ran although a required option is missing")
		}
		return out, flags
	}
	if o.HasErr {
		flags["in_domain"] = true
		helpLevel := ex.Level == helpName || strings.HasSuffix(ex.Level, "/"+helpName)
		if len(ex.Missing) > 0 && !ex.HelpCalled && !helpLevel {
			// a required option of the selected command is missing: the property lets Parse or Dispatch report it
			ok := false
			for _, m := range ex.MissingMsg {
				if o.ParseErr == m {
					ok = true
				}
			}
			if !o.IsParsing || !ok {
				out = append(out, fmt.Sprintf("required: option(s) %v missing but Parse returned %q, want an ErrorParsing error carrying the message of a missing option", ex.Missing, o.ParseErr))
			}
			if len(p.Calls) > 0 {
				out = append(out, "required: a command function ran although a required option is missing")
			}
			return out, flags
		}
		// otherwise Parse must not fail in this domain
		if strings.Contains(o.ParseErr, "equired") || o.IsParsing {
			out = append(out, fmt.Sprintf("required: Parse fails with %q although every required option of the selected level was supplied (or help was requested)", o.ParseErr))
		}
		return out, flags
	}
	flags["in_domain"] = true
	isHelpLevel := ex.Level == helpName || strings.HasSuffix(ex.Level, "/"+helpName)
	switch {
	case isHelpLevel:
		flags["help_command"] = true
		parent := strings.TrimSuffix(strings.TrimSuffix(ex.Level, helpName), "/")
		if len(o.Calls) != 0 {
			out = append(out, fmt.Sprintf("help command: user function %v ran", callPaths(o)))
		}
		if len(ex.Remaining) == 0 {
			want := ph.HelpOf(pc.Def, pc.Env, parent)
			if o.WDispatch != want {
				out = append(out, fmt.Sprintf("help command: Writer did not receive the help of level %q (got %q)", "/"+parent, abbreviate(o.WDispatch, 80)))
			}
			if !o.DIsHelp {
				out = append(out, fmt.Sprintf("help command: Dispatch returned %q, want ErrorHelpCalled", o.DErr))
			}
		} else {
			topic := ex.Remaining[0]
			pl := ph.FindLevel(pc.Def, parent)
			known := topic == helpName
			for _, k := range pl.Cmds {
				if k.Name == topic {
					known = true
				}
			}
			if known && topic != helpName {
				flags["help_topic"] = true
				tp := topic
				if parent != "" {
					tp = parent + "/" + topic
				}
				want := ph.HelpOf(pc.Def, pc.Env, tp)
				if o.WDispatch != want {
					out = append(out, fmt.Sprintf("help command: Writer did not receive the help of topic %q (got %q)", topic, abbreviate(o.WDispatch, 80)))
				}
				if !o.DIsHelp {
					out = append(out, fmt.Sprintf("help command: Dispatch returned %q, want ErrorHelpCalled", o.DErr))
				}
			} else if !known {
				flags["help_unknown_topic"] = true
				if !o.DHasErr || o.DIsHelp {
					out = append(out, fmt.Sprintf("help command: unknown topic %q must be answered with an error, Dispatch returned %q", topic, o.DErr))
				}
			}
		}
	case ex.HelpCalled:
		flags["help_option"] = true
		if len(ex.Missing) > 0 {
			flags["help_with_missing_required"] = true
		}
		if len(o.Calls) != 0 {
			out = append(out, fmt.Sprintf("help option: user function %v ran", callPaths(o)))
		}
		want := ph.HelpOf(pc.Def, pc.Env, ex.Level)
		if o.WDispatch != want {
			out = append(out, fmt.Sprintf("help option: Writer did not receive the help of level %q (got %q)", "/"+ex.Level, abbreviate(o.WDispatch, 80)))
		}
		if !o.DIsHelp {
			out = append(out, fmt.Sprintf("help option: Dispatch returned %q, want ErrorHelpCalled", o.DErr))
		}
	case len(ex.Missing) > 0:
		flags["command_required_missing"] = true
		if len(o.Calls) != 0 {
			out = append(out, fmt.Sprintf("required: %v ran although required option(s) %v of the selected command are missing", callPaths(o), ex.Missing))
		}
		if !o.DIsParsing {
			out = append(out, fmt.Sprintf("required: option(s) %v missing but Dispatch returned %q, want an error satisfying errors.Is(err, ErrorParsing)", ex.Missing, o.DErr))
		} else {
			ok := false
			for _, m := range ex.MissingMsg {
				if o.DErr == m {
					ok = true
				}
			}
			if !ok {
				out = append(out, fmt.Sprintf("required: Dispatch error %q does not carry the message of a missing option %v", o.DErr, ex.MissingMsg))
			}
		}
	default:
		flags["all_supplied"] = true
		if o.DIsParsing || strings.Contains(o.DErr, "equired") {
			out = append(out, fmt.Sprintf("required: every required option was supplied but Dispatch returned %q", o.DErr))
		}
		level := ph.FindLevel(pc.Def, ex.Level)
		if level != nil && !level.NoFn && len(o.Calls) != 1 {
			out = append(out, fmt.Sprintf("required: every required option was supplied but %d command functions ran", len(o.Calls)))
		}
		// start from non-initial states too: a program object that already served an earlier successful round must
		// not report a required option as missing that this command line (or the environment) supplies
		if len(out) == 0 && level != nil && !level.NoFn && !o.DHasErr && len(pc.Argv) <= 3 {
			for _, pre := range c11Pres {
				p2 := ph.Build(pc.Def, pc.Env)
				o1 := p2.Run(pre, true)
				if o1.Panic != "" || o1.Hang || o1.HasErr || o1.DHasErr || len(o1.Calls) != 1 {
					p2.Close()
					continue
				}
				p2.Reset()
				o2 := p2.Run(pc.Argv, true)
				p2.Close()
				flags["second_round"] = true
				if o2.Panic != "" || o2.Hang {
					continue
				}
				if o2.HasErr || o2.DHasErr || len(o2.Calls) != 1 {
					out = append(out, fmt.Sprintf("required (second round on the same program object, after %q): every required option is supplied but Parse returned %q, Dispatch returned %q and %d command functions ran", pre, o2.ParseErr, o2.DErr, len(o2.Calls)))
					break
				}
			}
		}
	}
	// the caller's context may already be cancelled when Dispatch is called: help and required-option handling do not
	// depend on it
	if len(out) == 0 && len(pc.Argv) <= 2 && !o.HasErr {
		p3 := ph.Build(pc.Def, pc.Env)
		p3.CancelCtx()
		o3 := p3.Run(pc.Argv, true)
		p3.Close()
		flags["cancelled_context"] = true
		if o3.Panic == "" && !o3.Hang {
			if o3.DIsHelp != o.DIsHelp || o3.DIsParsing != o.DIsParsing || o3.DErr != o.DErr || len(o3.Calls) != len(o.Calls) || o3.WDispatch != o.WDispatch {
				out = append(out, fmt.Sprintf("with an already cancelled context Dispatch returns %q (help=%v parsing=%v, %d functions ran, %d bytes written), with a live one %q (help=%v parsing=%v, %d functions ran, %d bytes written)",
					o3.DErr, o3.DIsHelp, o3.DIsParsing, len(o3.Calls), len(o3.WDispatch), o.DErr, o.DIsHelp, o.DIsParsing, len(o.Calls), len(o.WDispatch)))
			}
		}
	}
	return out, flags
}

// earlier rounds used by the second-round oracle (those that do not succeed on a definition or environment are skipped)
var c11Pres = [][]string{{}, {"--v"}, {"--rreq=1"}, {"--rreq=1", "--v", "zzz"}, {"c", "--cq2", "--copt=1"}, {"--rreq=1", "c"}}

func init() {
	parserJudges["C11"] = func(pc *parserCase, verbose bool) []string { m, _ := c11Judge(pc, verbose); return m }
	register(&Check{
		ID:        "C11",
		QuickSecs: 900, ThoroSecs: 3000,
		Rule: "input-space exploration: two trees with required options at the root, on a command and two levels down (inherited), with and without custom message, one bound to an environment variable; every argv of length <= L over 19 tokens (each required option by name, alias, abbreviation; command names; help option, its abbreviation and alias; help command; topics; positional) x 3 modes x environment {unset, set}, plus a tree with k in {1,2,3,5} required root options supplied through the environment and three sibling commands with a required option each; " +
			"Parse / Dispatch errors (errors.Is ErrorParsing, custom text), Writer contents (help text of the right level) and instrumented CommandFns compared with the reference model; every argv of length <= 3 that supplies all required options is also given to a program object that already served one of 6 earlier rounds and must again run its function without a required-option error; distinct_nontrivial = distinct in-domain cases",
		Assume: []string{"other trees and argv longer than L are not covered"},
		Run: func(c *RunCtx) {
			depth := 4
			if c.Tier == "thorough" {
				depth = 5
			}
			alpha := []string{"--rreq=1", "--r1=1", "--rr=1", "--creq=1", "--cr=1", "--cq2", "--copt", "--copt=1", "--ereq=1", "--er=1", "c", "e", "n", "help", "--help", "--he", "--?", "zzz", "--v"}
			ext := []string{"w", "--wo", "p", "--preq=1", "-z?", "-zv"} // an UnsetOptions wrapper command; a command whose required option got a value through SetValue; bundles that start with an unknown letter
			var defs []*ph.Def
			envOf := map[*ph.Def]map[string]string{}
			for mode := 0; mode < 3; mode++ {
				for _, env := range []map[string]string{nil, {"VERIF_C11_CREQ": "fromenv"}} {
					for _, mk := range []func(int) *ph.Def{defC11, defC11b} {
						d := mk(mode)
						defs = append(defs, d)
						envOf[d] = env
					}
				}
			}
			// Bundling with unknown options passed through: a bundle that starts with an unknown letter still sets (or asks
			// for help through) the known letters behind it
			for _, mk := range []func(int) *ph.Def{defC11, defC11b} {
				d := mk(1)
				d.Unknown = 2
				defs = append(defs, d)
				envOf[d] = nil
			}
			for _, k := range []int{1, 2, 3, 5} {
				for _, creq := range []bool{false, true} {
					d, env := defC11c(0, k)
					if creq {
						env["VERIF_C11_CREQ"] = "fromenv"
					}
					defs = append(defs, d)
					envOf[d] = env
				}
			}
			c.Res.Bounds = map[string]any{"L": depth, "alphabet": alpha, "definitions": len(defs)}
			sw := &sweep{c: c, defs: defs, alpha: alpha, ext: ext, depth: depth}
			sw.visit = func(def *ph.Def, argv []string) {
				res := c.Res
				pc := &parserCase{Check: "C11", Def: def, Env: envOf[def], Argv: argv, Dispatch: true}
				res.Evaluations++
				res.Traces++
				msgs, flags := c11Judge(pc, false)
				for k, v := range flags {
					if v {
						if k == "in_domain" {
							res.count("in_domain_cases", 1)
						} else {
							res.count("in_domain_"+k, 1)
						}
					}
				}
				if len(msgs) > 0 {
					res.violate(Violation{Prop: "C11", Msg: fmt.Sprintf("%s  [%s env=%v argv=%q]", msgs[0], def.ConfigString(), envOf[def], argv), Case: newCase("C11", def, envOf[def], argv, true), Weight: len(argv), Test: goTest(def, envOf[def], argv, msgs[0])})
				}
				if res.Evaluations%60000 == 1 {
					res.sample(map[string]any{"config": def.ConfigString(), "env": envOf[def], "argv": append([]string{}, argv...)})
				}
			}
			sw.run()
			c.Res.Distinct = c.Res.Counters["in_domain_cases"]
		},
		Replay: replayParser,
		GateCounts: []string{"in_domain_cases", "in_domain_root_required_missing", "in_domain_command_required_missing", "in_domain_help_option", "in_domain_help_with_missing_required",
			"in_domain_help_command", "in_domain_help_topic", "in_domain_help_unknown_topic", "in_domain_all_supplied", "in_domain_second_round", "in_domain_help_above_wrapper"},
	})
}
