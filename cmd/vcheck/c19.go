package main

import (
	"fmt"
	"os"
	"strings"

	"verif/harness/ph"
)

var c19Bytes = []string{"-", "=", "a", "b", ".", "1", " ", "\n", ":", "/", "\xc3", "\xa9", "\xff"}

func c19Tokens(maxLen int) []string {
	var out []string
	var rec func(cur string, n int)
	rec = func(cur string, n int) {
		out = append(out, cur)
		if n == maxLen {
			return
		}
		for _, c := range c19Bytes {
			rec(cur+c, n+1)
		}
	}
	rec("", 0)
	return out
}

// long and deeply bundled tokens, int ranges with spans <= 10^4 (the statement's limit), numeric boundaries
var c19Special = []string{
	strings.Repeat("a", 10000), strings.Repeat("-", 10000), "-" + strings.Repeat("ab", 5000), "--b=" + strings.Repeat("x", 10000), "--" + strings.Repeat("b", 10000),
	"-" + strings.Repeat("é", 3000), "--ab=1..3", "--ab=1..10000", "--ab=-5000..5000", "--ab", "1..10000", "--ab=3..1", "--ab=1..1", "--ab=1....2", "--ab=..", "--ab=1..", "--ab=..1",
	"--ab=9223372036854775806..9223372036854775807", "--ab=9223372036854775807..9223372036854775807", "--ab=-9223372036854775808..-9223372036854775807", "--ab=9223372036854775800..9223372036854775810",
	"9223372036854775806..9223372036854775807",
	"--1=1e308", "--1=1e309", "--1=NaN", "--1", "1e400", "--bb", "k=v", "=", "==", "--bb==", "--é", "--é=", "-é", "--help", "help", "--a=true", "--a=", "--b", "--b=", "a", "1",
	"--bb=a", "--bb=b=", "--bb=", "--b=b", "--b=b1", "--b=b1x", "--é=x", "--a=", "-b=b", "--bb=ab",
	"\x00", "--\x00", "--b=\x00", "-\x00", "%s%d%v", "--%s", "--b=%!d(string=x)", "--ab=1..2..3", "-1..5", "--ab=0x1..0x5",
	"--ab=1..10..0", "1..2..000", "--ab=1..9..2", "--ab=5..1..-1", "--ab=1..3..", "0..1..+0", "a=b=c", "level=d", "=a", "a==", "a-very-long-word-before-the-equal-sign=d", "x=" + strings.Repeat("y", 100), strings.Repeat("k", 100) + "=",
	"\\", "a\\", "a,b\\", "a\\,b", `C:\Users\me\`, "a,,b", ",", // backslashes and separators (list-valued environment variables, escapes)
}

func defC19(mode, unknown int, ro bool) *ph.Def {
	return &ph.Def{Mode: mode, Unknown: unknown, RequireOrder: ro, Help: "help", HelpAliases: []string{"?"}, Root: ph.CmdDef{Name: "prog",
		Opts: []ph.OptDef{
			{Name: "a", Kind: ph.Bool, Aliases: []string{"aa"}},
			{Name: "b", Kind: ph.Str, Env: "VERIF_C19_B", Suggested: []string{"b1", "b2"}},
			{Name: "ab", Kind: ph.IntS, Min: 1, Max: 3, Env: "VERIF_C19_L"},
			{Name: "1", Kind: ph.FltS, Min: 1, Max: 2},
			{Name: "é", Kind: ph.StrOpt, DefS: "E"},
			{Name: "bb", Kind: ph.Map, Min: 1, Max: 2, Suggested: []string{"a=", "b=", "ab=x"}, Env: "VERIF_C19_M"},
			{Name: "i", Kind: ph.Int, Env: "VERIF_C19_I"},
			{Name: "f", Kind: ph.FltOpt, Env: "VERIF_C19_F"},
			{Name: "n", Kind: ph.Incr},
			{Name: "-", Kind: ph.Bool},
			{Name: "t", Kind: ph.Bool, Env: "VERIF_C19_T"},
		},
		Cmds: []*ph.CmdDef{
			{Name: "a", Opts: []ph.OptDef{{Name: "x", Kind: ph.IntOpt}}, Cmds: []*ph.CmdDef{{Name: "1"}}, ArgCompl: []string{"arg1", "a.b", "a=b"}, ArgFn: true}, // dynamic completion functions return fixed, short lists
			{Name: "1", NoFn: true, Unset: true},
		},
	}}
}

// c19Texts are the texts put, one role at a time, into a definition: names, argument names, descriptions.
var c19Texts = []string{"x", strings.Repeat("w", 40), "é", "ñññññññ", "大きさの値", "<файл-назначения>", "año", "a\u0301", "%s%d", "x y", "tab\there", "two\nlines", "\u200b", "🙂🙂🙂", "ß"}

func c19NameOK(t string) bool {
	return t != "" && !strings.ContainsAny(t, " \t\n=") && !strings.HasPrefix(t, "-")
}

// defsC19Texts: one definition per (role, text): the text is used as command name, option name, alias, argument name,
// description, synopsis argument or program name / description, everything else stays short ASCII.
func defsC19Texts() []*ph.Def {
	var out []*ph.Def
	roles := []string{"command", "option", "alias", "argname", "desc", "synarg", "self", "all"}
	for _, role := range roles {
		for _, t := range c19Texts {
			is := func(r string) bool { return role == r || role == "all" }
			if (is("command") || is("option") || is("alias")) && !c19NameOK(t) {
				if role != "all" {
					continue
				}
			}
			name := func(r, dflt string) string {
				if is(r) && c19NameOK(t) {
					return t
				}
				return dflt
			}
			text := func(r, dflt string) string {
				if is(r) {
					return t
				}
				return dflt
			}
			o := ph.OptDef{Name: name("option", "opt"), Kind: ph.Str, DefS: "d", ArgName: text("argname", ""), Desc: text("desc", "an option")}
			if a := name("alias", ""); a != "" && a != o.Name {
				o.Aliases = []string{a}
			}
			cmdName := name("command", "cmd")
			if cmdName == o.Name {
				cmdName += "c"
			}
			root := ph.CmdDef{Name: text("self", "prog"), Desc: text("self", "a program"),
				Opts: []ph.OptDef{o, {Name: "flag", Kind: ph.Bool}, {Name: "req", Kind: ph.Int, Required: true, Desc: text("desc", "")}},
				Cmds: []*ph.CmdDef{
					{Name: cmdName, Desc: text("desc", "a command"), SynArgs: [][2]string{{text("synarg", "<f>"), text("desc", "file")}}, ReqArgs: 2, // the function asks for one argument more than it named
						Opts: []ph.OptDef{{Name: "co", Kind: ph.StrS, Min: 1, Max: 2, ArgName: text("argname", ""), Desc: text("desc", "")}},
						Cmds: []*ph.CmdDef{{Name: "sub", Desc: text("desc", "")}}},
					{Name: "zz"},
				}}
			if is("synarg") {
				root.SynArgs = [][2]string{{t, "d"}, {"<x>", t}}
				root.ReqArgs = 3
			}
			for mode := 0; mode < 3; mode++ {
				out = append(out, &ph.Def{Mode: mode, Unknown: 2, Help: "help", Root: root})
			}
		}
	}
	return out
}

// c19DefCases: the command lines and completion lines tried on every definition of the family.
func c19DefCases(def *ph.Def) (argvs [][]string, lines []string) {
	cmd := def.Root.Cmds[0].Name
	on := def.Root.Opts[0].Name
	argvs = [][]string{{}, {"--help"}, {"help"}, {"help", cmd}, {cmd}, {cmd, "--help"}, {cmd, "help"}, {cmd, "help", "sub"}, {cmd, "sub", "--help"}, {"--req=1"}, {"--req=1", cmd}, {"--" + on + "=v", "--req", "1", cmd, "sub"}, {"--" + on}, {"-" + on, "v"}, {"zz", "help"}, {"help", "nosuch"}, {cmd, "x"}, {"--req=1", "x", "y"}, {"--req=1", "x"}}
	if len(def.Root.Opts[0].Aliases) > 0 {
		argvs = append(argvs, []string{"-" + def.Root.Opts[0].Aliases[0], "v", "--req=1"})
	}
	r := []rune(cmd)
	lines = []string{"prog ", "prog -", "prog --", "prog " + string(r[:1]), "prog " + cmd + " ", "prog " + cmd + " -", "prog --" + on + "=", "prog help ", "prog --" + string([]rune(on)[:1])}
	return
}

type c19Result struct {
	msgs []string
}

// c19Run exercises Parse -> Dispatch -> Help with every call under recover and a loop budget.
func c19Run(def *ph.Def, env map[string]string, argv []string) []string {
	p := ph.Build(def, env)
	defer p.Close()
	o := p.Run(argv, true)
	var out []string
	if o.Panic != "" {
		out = append(out, "panic: "+firstLine(o.Panic))
	}
	if o.Hang {
		out = append(out, "hang: the loop budget of 1e6 iterations was exhausted")
	}
	if o.Panic == "" && !o.Hang && o.HasErr && !o.RemNil {
		out = append(out, "a failed Parse returned a non-nil remaining list")
	}
	if _, pn, hg := p.Help(); pn != "" || hg {
		out = append(out, "Help() panics or hangs: "+firstLine(pn))
	}
	return out
}

func firstLine(s string) string {
	if i := strings.Index(s, "\n"); i >= 0 {
		return s[:i]
	}
	return s
}

// c19Complete runs the completion path with COMP_LINE set.
func c19Complete(def *ph.Def, line string, zsh bool, args []string) []string {
	os.Setenv("COMP_LINE", line)
	if zsh {
		os.Setenv("ZSHELL", "true")
	}
	defer os.Unsetenv("COMP_LINE")
	defer os.Unsetenv("ZSHELL")
	p := ph.Build(def, nil)
	defer p.Close()
	o := p.Run(args, false)
	var out []string
	if o.Panic != "" {
		out = append(out, "completion panics: "+firstLine(o.Panic))
	}
	if o.Hang {
		out = append(out, "completion hangs")
	}
	if o.Panic == "" && !o.Hang && len(p.Exits) == 0 {
		out = append(out, "completion did not leave through the exit path")
	}
	if len(p.Calls) > 0 {
		out = append(out, "completion ran a command function")
	}
	return out
}

func judgeC19(pc *parserCase, verbose bool) []string {
	if pc.Extra != nil {
		if path, ok := pc.Extra["help_path"].(string); ok {
			var pn string
			func() {
				defer func() {
					if r := recover(); r != nil {
						pn = fmt.Sprint(r)
					}
				}()
				fmt.Println(ph.HelpOf(pc.Def, nil, path))
			}()
			if pn != "" {
				return []string{"Help() panics: " + firstLine(pn)}
			}
			return nil
		}
		if line, ok := pc.Extra["comp_line"].(string); ok {
			zsh, _ := pc.Extra["zsh"].(bool)
			return c19Complete(pc.Def, line, zsh, pc.Argv)
		}
	}
	if verbose {
		fmt.Printf("config: %s\nargv: %q\nenv: %v\n", pc.Def.ConfigString(), pc.Argv, pc.Env)
	}
	return c19Run(pc.Def, pc.Env, pc.Argv)
}

func init() {
	parserJudges["C19"] = judgeC19
	register(&Check{
		ID:        "C19",
		QuickSecs: 900, ThoroSecs: 3000,
		Rule: "input-space exploration at byte level: tokens = all byte strings of length <= 3 over 13 bytes {- = a b . 1 space newline : / 0xC3 0xA9 0xFF} (2380) plus 80 special tokens (10^4-byte and deeply bundled tokens, int ranges with spans <= 10^4 including ranges ending at the int64 limits, numeric limits, format verbs, NUL); " +
			"every single token x 18 configurations (plus 3 warn-mode configurations in which every Write on Writer fails), every pair over a subset of Np tokens, every triple over Nt tokens, the same strings as COMP_LINE (bash and zsh, both argument conventions) and as environment values of bound options; a family of definitions in which each of 15 texts (long, multibyte, combining, wide, format verbs, blanks, newline) takes each role (command name, option name, alias, argument name, description, synopsis argument, program name) x 3 modes, each with 20 command lines, 9 completion lines and Help() of every level; the command-tree shapes of C10 (depth <= 2, wrappers, commands and root without a function, with and without the built-in help) on every command line of length <= 2 over 16 tokens; Parse, Dispatch and Help run under recover with a budget of 10^6 loop iterations per call (instrumented loops); " +
			"oracle: no panic, budget never exhausted, a failed Parse returns nil remaining and a non-nil error, completion leaves through the exit path; distinct_nontrivial = distinct inputs executed",
		Assume: []string{"tokens outside the byte alphabet and longer sequences are not covered", "a hang is detected as exhaustion of the loop-iteration budget, not by wall-clock"},
		Run: func(c *RunCtx) {
			res := c.Res
			toks := append(c19Tokens(3), c19Special...)
			np, nt := 300, 24
			if c.Tier == "thorough" {
				np, nt = 600, 48
			}
			// subset for pairs/triples: every token of length <= 1, the special ones, and a deterministic spread of the rest
			var sub []string
			for _, t := range toks {
				if len(t) <= 1 {
					sub = append(sub, t)
				}
			}
			sub = append(sub, c19Special[5:]...)
			step := len(toks) / (np - len(sub) + 1)
			if step < 1 {
				step = 1
			}
			for i := 7; i < len(toks) && len(sub) < np; i += step {
				if len(toks[i]) > 1 && len(toks[i]) <= 3 {
					sub = append(sub, toks[i])
				}
			}
			tri := []string{"", "-", "--", "a", "1", "--a", "--b", "--ab", "--1", "--é", "--bb", "k=v", "=", "-ab", "--ab=1..3", "1.", "help", "--help", "-\xff", "--i", "-n", "--b=", " ", "\n"}
			if c.Tier == "thorough" {
				tri = append(tri, sub[:nt-len(tri)]...)
			}
			res.Bounds = map[string]any{"single_tokens": len(toks), "pair_subset": len(sub), "triple_subset": len(tri), "configurations": 18}
			var defs []*ph.Def
			for _, ro := range []bool{false, true} {
				for unknown := 0; unknown < 3; unknown++ {
					for mode := 0; mode < 3; mode++ {
						defs = append(defs, defC19(mode, unknown, ro))
					}
				}
			}
			one := func(kind string, def *ph.Def, env map[string]string, argv []string) {
				res.Evaluations++
				res.States++
				res.Transitions += int64(len(argv))
				res.Traces++
				res.count(kind, 1)
				if msgs := c19Run(def, env, argv); len(msgs) > 0 {
					res.violate(Violation{Prop: "C19", Msg: fmt.Sprintf("%s  [%s env=%q argv=%q]", msgs[0], def.ConfigString(), env, abbrevList(argv)), Case: newCase("C19", def, env, argv, true), Weight: len(argv)*100000 + len(strings.Join(argv, ""))})
				}
				if res.Evaluations%50000 == 1 {
					res.sample(map[string]any{"kind": kind, "config": def.ConfigString(), "argv": abbrevList(argv)})
				}
			}
			comp := func(def *ph.Def, line string, zsh bool, args []string) {
				if line == "" || strings.Contains(line, "\x00") {
					return // an empty COMP_LINE means "not completing"; NUL cannot be put into the environment
				}
				res.Evaluations++
				res.States++
				res.Transitions++
				res.Traces++
				res.count("comp_line_texts", 1)
				if msgs := c19Complete(def, line, zsh, args); len(msgs) > 0 {
					pc := parserCase{Check: "C19", Def: def, Argv: args, Extra: map[string]any{"comp_line": line, "zsh": zsh}}
					raw, _ := jsonMarshal(pc)
					res.violate(Violation{Prop: "C19", Msg: fmt.Sprintf("%s  [COMP_LINE=%q zsh=%v args=%q]", msgs[0], abbreviate(line, 60), zsh, abbrevList(args)), Case: raw, Weight: len(line)})
				}
			}
			// units: per definition: singles, pairs (by first token), triples; then completion and environment
			type unit struct {
				kind string
				def  int
				i    int
			}
			var units []unit
			nPlain := len(defs)
			for mode := 0; mode < 3; mode++ {
				d := defC19(mode, 1, false) // warn mode with a Writer whose every Write fails
				d.WriterFails = true
				defs = append(defs, d)
			}
			for d := range defs {
				units = append(units, unit{"single", d, 0})
				if d >= nPlain {
					continue // the failing-Writer configurations: single tokens only
				}
				for i := range sub {
					units = append(units, unit{"pair", d, i})
				}
				if d%3 == 0 || c.Tier == "thorough" {
					for i := range tri {
						units = append(units, unit{"triple", d, i})
					}
				}
			}
			for d := 0; d < 3; d++ {
				units = append(units, unit{"comp", d, 0}, unit{"env", d, 0})
			}
			// command-tree shapes (the family of C10: depth <= 2, wrappers, commands and root without a function), each
			// without and with the built-in help, on every command line of length <= 2
			var sdefs []*ph.Def
			for _, d := range defsC10("quick") {
				sdefs = append(sdefs, d)
				d2 := *d
				d2.Help = "help"
				sdefs = append(sdefs, &d2)
			}
			shapeAlpha := []string{"c1", "c2", "s1", "s2", "--ra", "--rs", "--oo", "--ca", "--sa", "p", "--", "--sl", "zeta", "--zz", "help", "--help"}
			res.Bounds["command_tree_shapes"] = len(sdefs)
			for d := range sdefs {
				units = append(units, unit{"shape", d, 0})
			}
			tdefs := defsC19Texts()
			res.Bounds["definitions_with_text_roles"] = len(tdefs)
			for d := range tdefs {
				units = append(units, unit{"textdef", d, 0})
			}
			for {
				u := c.claim()
				if u >= len(units) || len(res.Violations) >= 3 {
					break
				}
				if c.expired() {
					res.Capped = true
					break
				}
				un := units[u]
				if un.kind == "shape" {
					def := sdefs[un.def]
					one("command_tree_shape_cases", def, nil, []string{})
					for _, t1 := range shapeAlpha {
						one("command_tree_shape_cases", def, nil, []string{t1})
						for _, t2 := range shapeAlpha {
							one("command_tree_shape_cases", def, nil, []string{t1, t2})
						}
					}
					continue
				}
				if un.kind == "textdef" {
					def := tdefs[un.def]
					argvs, lines := c19DefCases(def)
					for _, argv := range argvs {
						one("definition_text_cases", def, nil, argv)
					}
					for _, l := range lines {
						for _, zsh := range []bool{false, true} {
							comp(def, l, zsh, []string{})
						}
					}
					// help of every level, rendered on the level's own object
					for _, path := range c18Paths(def) {
						res.Evaluations++
						res.Traces++
						res.count("definition_text_cases", 1)
						var pn string
						func() {
							defer func() {
								if r := recover(); r != nil {
									pn = fmt.Sprint(r)
								}
							}()
							ph.HelpOf(def, nil, path)
						}()
						if pn != "" {
							pc := parserCase{Check: "C19", Def: def, Extra: map[string]any{"help_path": path}}
							raw, _ := jsonMarshal(pc)
							res.violate(Violation{Prop: "C19", Msg: fmt.Sprintf("Help() of level %q panics: %s  [definition with text %q]", "/"+path, firstLine(pn), def.Root.Cmds[0].Desc), Case: raw, Weight: 10})
						}
					}
					continue
				}
				def := defs[un.def]
				switch un.kind {
				case "single":
					for _, t := range toks {
						one("single_token_cases", def, nil, []string{t})
					}
				case "pair":
					for _, t2 := range sub {
						one("token_pair_cases", def, nil, []string{sub[un.i], t2})
					}
				case "triple":
					for _, t2 := range tri {
						for _, t3 := range tri {
							one("token_triple_cases", def, nil, []string{tri[un.i], t2, t3})
						}
					}
				case "comp":
					for _, t := range toks {
						for _, zsh := range []bool{false, true} {
							comp(def, "prog "+t, zsh, []string{})
							comp(def, "prog a "+t, zsh, []string{"prog", t, "a"})
							comp(def, t, zsh, nil)
						}
					}
					for _, t1 := range sub {
						for _, t2 := range tri {
							comp(def, "prog "+t1+" "+t2, false, []string{"prog", t2, t1})
						}
					}
				case "env":
					for _, t := range toks {
						if strings.Contains(t, "\x00") {
							continue // not representable in the environment
						}
						env := map[string]string{"VERIF_C19_B": t, "VERIF_C19_I": t, "VERIF_C19_F": t, "VERIF_C19_T": t, "VERIF_C19_L": t, "VERIF_C19_M": t}
						one("environment_value_cases", def, env, []string{})
						one("environment_value_cases", def, env, []string{"--i", "--b"})
					}
				}
			}
			res.Distinct = res.Evaluations
		},
		Replay:     replayParser,
		GateCounts: []string{"single_token_cases", "token_pair_cases", "token_triple_cases", "comp_line_texts", "environment_value_cases", "definition_text_cases", "command_tree_shape_cases"},
	})
}

func abbrevList(ss []string) []string {
	out := make([]string, len(ss))
	for i, s := range ss {
		out[i] = abbreviate(s, 50)
	}
	return out
}
