package main

import (
	"fmt"
	"math"
	"strings"

	"verif/harness/ph"
)

func defsC02(tier string) []*ph.Def {
	var out []*ph.Def
	bounds := [][2]int{{1, 1}, {1, 2}, {1, 3}, {2, 2}, {2, 3}, {3, 3}, {1, math.MaxInt}} // the last one is the usual way to say "unbounded"
	for _, kind := range []ph.Kind{ph.StrS, ph.IntS, ph.FltS, ph.Map} {
		for _, b := range bounds {
			for mode := 0; mode < 3; mode++ {
				unknowns := []int{0, 2}
				ros := []bool{false}
				if tier == "thorough" {
					unknowns = []int{0, 1, 2}
					ros = []bool{false, true}
				}
				for _, ro := range ros {
					for _, unknown := range unknowns {
						d := &ph.Def{Mode: mode, Unknown: unknown, RequireOrder: ro, Root: ph.CmdDef{Name: "prog",
							Opts: []ph.OptDef{
								{Name: "m", Kind: kind, Min: b[0], Max: b[1], Aliases: []string{"ñ"}}, // a multibyte one-letter alias
								{Name: "x", Kind: ph.Bool},
							},
							Cmds: []*ph.CmdDef{{Name: "c"}},
						}}
						out = append(out, d)
						// SetMapKeysToLower: spellings of one key that differ in case are one key, the last one on the command line wins
						if kind == ph.Map && b[1] == 3 && b[0] == 1 && !ro {
							d2 := *d
							d2.MapLower = true
							out = append(out, &d2)
						}
					}
				}
			}
		}
	}
	return out
}

func init() {
	(&specSweepCheck{
		id: "C02",
		rule: "input-space exploration: every argv of length <= L over a 22-token alphabet (values, numbers, key=value, ranges, empty string, `-`, `--`, option-looking tokens, command name, the option itself with and without attached value; for argv shorter than L also zero-padded, hexadecimal, exponent, signed and underscore numerals) " +
			"for each element type x (min,max) in {(1,1),(1,2),(1,3),(2,2),(2,3),(3,3),(1,MaxInt)} x 3 modes x {fail,pass}; stored values, remaining, sibling option and error compared with the reference intake model; " +
			"distinct_nontrivial = distinct (definition, argv) cases inside the specified territory",
		defs:     defsC02,
		alpha:    []string{"a", "5", "1.5", "k=v", "k=a=b", "=v", "1..3", "3..1", "", "-", "--", "--x", "-5", "c", "--m", "--m=a", "--m=5", "--m=k=v", "--m=k=w=z", "--m=1..3", "-m", "--zz"},
		alphaExt: []string{"010", "08", "007..010", "--m=010", "0x1F", "1e2", "+5", "1_0", "-mx", "-xm", "--m=-2..1", "+1..+3", "-ñ", "-ñ=a", "-xñ", "--m=a,b", "a,b", "--m=k=a,b", "--m=1,2", "K=a", "k=b", "--m=K=c"}, // numerals on which Go's decimal conversion and other readings (octal, hex, float) disagree; bundles in which the multi-value letter is not the last one; signed range ends
		depthQ:   4, depthT: 4,
		facets: ph.Facets{Err: true, ErrDetail: true, Remaining: true, Vals: true, Called: true, CalledAs: true},
		extra: func(pc *parserCase, info specInfo) ([]string, []string) {
			var cs []string
			if info.inDomain && info.ex.Called["/m"] {
				cs = append(cs, "in_domain_cases_using_the_multi_value_option")
				if !info.ex.Err && strings.Count(info.ex.Vals["/m"], ",") > 0 {
					cs = append(cs, "cases_storing_two_or_more_values")
				}
			}
			return nil, cs
		},
		gates: []string{"in_domain_cases_using_the_multi_value_option", "cases_storing_two_or_more_values"},
	}).register()

	(&specSweepCheck{
		id: "C08",
		rule: "input-space exploration: every argv of length <= L over {unknown long/short/bundled options with and without attached values, known options, value, command, wrapper command (UnsetOptions), positional, terminator} " +
			"x 3 unknown modes x 3 single-dash modes (plus 18 configurations in which the command sets another unknown-mode than the root, and 3 warn-mode configurations in which every Write on Writer fails) on a tree root{a,s,m map(1,2),li []int(1,2),help}/c{d}/w(wrapper); error (class and quoted name), warnings written to Writer, remaining and known option values compared with the reference model; " +
			"distinct_nontrivial = distinct (definition, argv) cases inside the specified territory",
		defs: func(string) []*ph.Def {
			base := func() *ph.Def {
				return &ph.Def{Help: "help", Root: ph.CmdDef{Name: "prog",
					Opts: []ph.OptDef{{Name: "a", Kind: ph.Bool}, {Name: "s", Kind: ph.Str}, {Name: "m", Kind: ph.Map, Min: 1, Max: 2}, {Name: "li", Kind: ph.IntS, Min: 1, Max: 2}},
					Cmds: []*ph.CmdDef{
						{Name: "c", Opts: []ph.OptDef{{Name: "d", Kind: ph.Bool}}},
						{Name: "w", Unset: true},
					},
				}}
			}
			ds := configs(base, []bool{false})
			// the command sets an unknown-mode of its own: an unknown option is judged by the mode of the command the parse ends in
			for _, d := range configs(base, []bool{false}) {
				for cu := 0; cu < 3; cu++ {
					if cu != d.Unknown {
						d2 := *d
						root := d.Root
						kid := *d.Root.Cmds[0]
						kid.Unknown = cu + 1
						root.Cmds = []*ph.CmdDef{&kid, d.Root.Cmds[1]}
						d2.Root = root
						ds = append(ds, &d2)
					}
				}
			}
			// warn mode with a Writer whose every Write fails: the warning is attempted, nothing else changes
			for _, d := range configs(base, []bool{false}) {
				if d.Unknown == 1 {
					d.WriterFails = true
					ds = append(ds, d)
				}
			}
			return ds
		},
		alpha:    []string{"--zz", "-z", "-az", "-zy", "--zz=1", "--a", "--s", "v", "c", "w", "p", "--", "--d"},
		alphaExt: []string{"--help", "--m", "k=v", "--li", "5", "-1", "--A", "-S"}, // ... a known name in the wrong case is an unknown option // help requested next to an unknown option; unknown options that look like a well-formed element behind a multi-value option
		depthQ:   5, depthT: 6,
		facets: ph.AllFacets,
		extra: func(pc *parserCase, info specInfo) ([]string, []string) {
			var cs []string
			if info.inDomain && len(info.ex.Unknowns) > 0 {
				cs = append(cs, "in_domain_cases_with_unknown_option")
				if info.ex.Level != "" {
					cs = append(cs, "in_domain_cases_with_unknown_option_and_command")
				}
			}
			return nil, cs
		},
		gates: []string{"in_domain_cases_with_unknown_option", "in_domain_cases_with_unknown_option_and_command"},
	}).register()

	(&specSweepCheck{
		id: "C09",
		rule: "input-space exploration with require-order set (on the root, or only on a command): every argv of length <= L over {known flag, valued option, value, optional-value option, multi-value option, command, positional, `-`, unknown option, terminator} x 3 modes x 3 unknown modes; " +
			"remaining, option values, Called compared with the reference model, and differentially with Parse of the prefix before the stop point on a program without require-order; " +
			"distinct_nontrivial = distinct (definition, argv) cases inside the specified territory",
		defs: func(string) []*ph.Def {
			ds := configs(defC09, []bool{true})
			// require-order set on the command only
			for _, d := range configs(defC09, []bool{false}) {
				d.Root.Cmds[0].RequireOrder = true
				ds = append(ds, d)
			}
			// a program without a function of its own (a pure command container): the first argument is still handed over
			for _, d := range configs(defC09, []bool{true}) {
				if d.Mode == 0 {
					d.Root.NoFn = true
					ds = append(ds, d)
				}
			}
			return ds
		},
		alpha:    []string{"--a", "--s", "v", "--so", "--l", "c", "p", "-", "--zz", "--", "-az", "--d"},
		alphaExt: []string{"dep", "deploy", "--force", "-=x", "--=x", "e", "--late", "", "w", "--qu", "--so=x"}, // the unique beginning of a command name is not the command; dashes followed by `=` name no option; a sub-command below the command that sets require-order; the empty string
		depthQ:   5, depthT: 6,
		facets: ph.AllFacets,
		extra: func(pc *parserCase, info specInfo) ([]string, []string) {
			if !info.inDomain || info.ex.Err || info.o.HasErr || len(info.ex.UnspecVals) > 0 {
				return nil, nil
			}
			ex := info.ex
			var msgs []string
			cs := []string{}
			if ex.StopIdx >= 0 {
				cs = append(cs, "in_domain_cases_that_stop")
				// everything before it is parsed exactly as without require-order
				d2 := defC09()
				d2.Mode, d2.Unknown = pc.Def.Mode, pc.Def.Unknown
				p2 := ph.Build(d2, nil)
				o2 := p2.Run(pc.Argv[:ex.StopIdx], false)
				p2.Close()
				if o2.HasErr {
					msgs = append(msgs, fmt.Sprintf("require-order: the prefix %q fails without require-order (%s) but succeeded with it", pc.Argv[:ex.StopIdx], o2.ParseErr))
				} else {
					// everything from the stop point on is returned verbatim (after whatever the part before it left over)
					want := append(append([]string{}, o2.Remaining...), pc.Argv[ex.StopIdx:]...)
					if !eqStr(info.o.Remaining, want) {
						msgs = append(msgs, fmt.Sprintf("require-order: remaining is %q, want %q (left over by the part before the stop point) followed by the input from the stop point on %q", info.o.Remaining, o2.Remaining, pc.Argv[ex.StopIdx:]))
					}
					for k, v := range o2.Vals {
						if info.o.Vals[k] != v || info.o.Called[k] != o2.Called[k] {
							msgs = append(msgs, fmt.Sprintf("require-order: option %s is %s (called=%v) but parsing the prefix before the stop point without require-order gives %s (called=%v)", k, info.o.Vals[k], info.o.Called[k], v, o2.Called[k]))
						}
					}
				}
				tailHasKnown := false
				for _, t := range pc.Argv[ex.StopIdx:] {
					if t == "--a" || t == "--s" || t == "--so" || t == "--l" || t == "c" {
						tailHasKnown = true
					}
				}
				if tailHasKnown {
					cs = append(cs, "in_domain_cases_with_known_option_or_command_after_the_stop")
				}
			}
			return msgs, cs
		},
		gates: []string{"in_domain_cases_that_stop", "in_domain_cases_with_known_option_or_command_after_the_stop"},
	}).register()
}

func defC09() *ph.Def {
	return &ph.Def{Root: ph.CmdDef{Name: "prog",
		Opts: []ph.OptDef{
			{Name: "a", Kind: ph.Bool},
			{Name: "s", Kind: ph.Str},
			{Name: "so", Kind: ph.StrOpt, DefS: "D"},
			{Name: "l", Kind: ph.StrS, Min: 1, Max: 2},
			{Name: "quiet", Kind: ph.Bool}, // given through its abbreviation --qu
		},
		Cmds: []*ph.CmdDef{{Name: "c", Opts: []ph.OptDef{{Name: "d", Kind: ph.Bool}}, Cmds: []*ph.CmdDef{{Name: "e", Opts: []ph.OptDef{{Name: "late", Kind: ph.Bool}}}}}, {Name: "deploy", Opts: []ph.OptDef{{Name: "force", Kind: ph.Bool}}},
			{Name: "w", Unset: true, Unknown: 3, Cmds: []*ph.CmdDef{{Name: "e"}}}}, // a wrapper inherits the require-order of the program; below it the program's options stay unknown
	}}
}
