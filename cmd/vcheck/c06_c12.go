package main

import (
	"fmt"
	"strings"

	"verif/harness/ph"
)

func defC06(mode int) *ph.Def {
	return &ph.Def{Mode: mode, Unknown: 2, MapLower: true, Help: "help", HelpAliases: []string{"?", "h"}, Root: ph.CmdDef{Name: "prog",
		Opts: []ph.OptDef{
			{Name: "pre", Kind: ph.Str, DefS: "PD", PreValue: []string{"from-config"}},                                  // gets a value through SetValue before Parse
			{Name: "defs", Kind: ph.Map, Min: 1, Max: 1, Preset: [][2]string{{"Mode", "fast"}}, Aliases: []string{"D"}}, // the returned map already holds a mixed-case key; SetMapKeysToLower is on
			{Name: "bool", Kind: ph.Bool, Aliases: []string{"b", "é"}, Env: "VERIF_C06_BOOL"},
			{Name: "str", Kind: ph.Str, Aliases: []string{"s", "string"}, Var: true, DefS: "D"},
			{Name: "int", Kind: ph.Int, Var: true, DefI: 7, Env: "VERIF_C06_INT"},
			{Name: "inc", Kind: ph.Incr, Aliases: []string{"i2", "9"}, DefI: 1}, // gzip-style numeric alias
			{Name: "nums", Kind: ph.IntS, Min: 1, Max: 3},
			{Name: "list", Kind: ph.StrS, Min: 1, Max: 2, Aliases: []string{"l"}, Var: true},
			{Name: "sc", Kind: ph.Bool, SetCalled: true},
			{Name: "opt", Kind: ph.StrOpt, Aliases: []string{"o"}, DefS: "OD"},
			{Name: "nb", Kind: ph.Bool, DefB: true, Var: true, Aliases: []string{"n", "ä"}}, // é and ä share their first byte
		},
		Cmds: []*ph.CmdDef{{Name: "c"}, {Name: "w", Unset: true, Opts: []ph.OptDef{{Name: "str", Kind: ph.Str, DefS: "wrapped-default"}, {Name: "int", Kind: ph.Int, DefI: -1}}}}, // the wrapper inherits nothing and declares options of its own under the same names
	}}
}

// alias groups for the metamorphic relation
var c06Groups = [][]string{{"bool", "b", "é"}, {"str", "s", "string"}, {"inc", "i2", "9"}, {"list", "l"}, {"opt", "o"}, {"nb", "n", "ä"}, {"help", "?", "h"}, {"defs", "D"}}

// long spellings of every name and alias, the short spelling (one dash, which means the same in all three modes for a
// one-letter name without attached text) of some one-letter aliases including a multibyte one, the help option and its aliases
var c06Alpha = []string{"--bool", "--b", "--str", "--s", "--string", "--int", "--inc", "--i2", "--list", "--l", "--opt", "--o", "--sc", "--nb", "--n", "v", "5", "p", "--zz", "c", "w", "--str=w",
	"-b", "-é", "-s", "-o", "--help", "-?", "--h", "-ä", "--pre=x", "--defs=Key=v", "--D=k=w", "--nums", "-9", "--9", "--st", "--str=a,b", "-zb", "-bzn"} // ... bundles with an unknown letter in front of / between known ones

// c06Key returns the option key a token spells (long form, or short form of a one-letter key) and whether it is such a token.
func c06Key(t string) (string, bool) {
	if strings.Contains(t, "=") {
		return "", false
	}
	if strings.HasPrefix(t, "--") {
		return t[2:], len(t) > 2
	}
	if strings.HasPrefix(t, "-") && len([]rune(t)) == 2 {
		return t[1:], true
	}
	return "", false
}

// c06Spellings lists the mode-independent spellings of a key.
func c06Spellings(key string) []string {
	if len([]rune(key)) == 1 {
		return []string{"--" + key, "-" + key}
	}
	return []string{"--" + key}
}

var c06Facets = ph.Facets{Err: true, ErrDetail: true, Remaining: true, Vals: true, Called: true, CalledAs: true}

func c06Subst(pc *parserCase, o *ph.Outcome, ex *ph.Expect) ([]string, int) {
	var out []string
	n := 0
	if ex.Err || len(ex.Unspec) > 0 {
		return nil, 0
	}
	for i, t := range pc.Argv {
		if t == "w" && ex.Consumed[i] {
			break // behind the wrapper the names belong to the wrapper's own options, which have no aliases
		}
		key, isOpt := c06Key(t)
		if !isOpt || !ex.Consumed[i] {
			continue // only occurrences that name the option at the level where they stand
		}
		for _, g := range c06Groups {
			in := false
			for _, k := range g {
				if k == key {
					in = true
				}
			}
			if !in {
				continue
			}
			for _, altKey := range g {
				for _, alt := range c06Spellings(altKey) {
					if alt == t {
						continue
					}
					argv2 := append([]string{}, pc.Argv...)
					argv2[i] = alt
					p2 := ph.Build(pc.Def, pc.Env)
					o2 := p2.Run(argv2, false)
					p2.Close()
					n++
					if o.HasErr != o2.HasErr {
						out = append(out, fmt.Sprintf("alias: %q fails=%v but with alias %q in place of %q fails=%v (%q / %q)", pc.Argv, o.HasErr, alt, t, o2.HasErr, o.ParseErr, o2.ParseErr))
						continue
					}
					if o.HasErr {
						continue
					}
					if !eqStr(o.Remaining, o2.Remaining) {
						out = append(out, fmt.Sprintf("alias: remaining %q becomes %q when %q is replaced by its alias %q", o.Remaining, o2.Remaining, t, alt))
					}
					for k, v := range o.Vals {
						if o2.Vals[k] != v || o2.Called[k] != o.Called[k] {
							out = append(out, fmt.Sprintf("alias: option %s is %s (called=%v) but %s (called=%v) when %q is replaced by its alias %q", k, v, o.Called[k], o2.Vals[k], o2.Called[k], t, alt))
						}
					}
				}
			}
		}
	}
	return out, n
}

func judgeC06(pc *parserCase, verbose bool) []string {
	msgs, info := judgeSpec(pc, c06Facets, verbose)
	if info.o.Panic == "" && !info.o.Hang {
		m2, _ := c06Subst(pc, info.o, info.ex)
		msgs = append(msgs, m2...)
	}
	return msgs
}

func init() {
	parserJudges["C06"] = judgeC06
	register(&Check{
		ID:        "C06",
		QuickSecs: 900, ThoroSecs: 3000,
		Rule: "input-space exploration: every argv of length <= L-1 over 40 tokens and of length L over the first 22 of them (every name and alias of 8 options of 6 kinds, half declared through *Var, one bound to an environment variable, one marked SetCalled, one with a multibyte one-letter alias; short spellings of one-letter aliases; the help option of HelpCommand and its aliases; values, positional, unknown option, command, UnsetOptions wrapper command) x 3 modes x environment {unset, valid, text that is not valid for the bound bool}; " +
			"absolute: values (pointer, *Var target and Value() agree), Called, CalledAs compared with the reference model, untouched options keep defaults; metamorphic: replacing any occurrence of a name by any other alias of the same option changes nothing but CalledAs; " +
			"distinct_nontrivial = distinct in-domain cases",
		Assume: []string{"argv longer than L and other option sets are not covered"},
		Run: func(c *RunCtx) {
			depth := 4
			if c.Tier == "thorough" {
				depth = 5
			}
			type cfg struct {
				def *ph.Def
				env map[string]string
			}
			var cfgs []cfg
			var defs []*ph.Def
			for mode := 0; mode < 3; mode++ {
				for _, env := range []map[string]string{nil, {"VERIF_C06_INT": "42"}, {"VERIF_C06_BOOL": "yes"}} { // the last one is not valid text for a bool: nothing may change
					d := defC06(mode)
					cfgs = append(cfgs, cfg{d, env})
					defs = append(defs, d)
				}
			}
			envOf := map[*ph.Def]map[string]string{}
			for _, cf := range cfgs {
				envOf[cf.def] = cf.env
			}
			c.Res.Bounds = map[string]any{"L": depth, "alphabet": c06Alpha, "configurations": len(cfgs)}
			sw := &sweep{c: c, defs: defs, alpha: c06Alpha, depth: depth}
			// the deepest layer only over the first 22 tokens (long spellings); every shorter argv over all of them
			sw.alpha, sw.ext = c06Alpha[:22], c06Alpha[22:]
			sw.visit = func(def *ph.Def, argv []string) {
				res := c.Res
				pc := &parserCase{Check: "C06", Def: def, Env: envOf[def], Argv: argv}
				res.Evaluations++
				res.Traces++
				msgs, info := judgeSpec(pc, c06Facets, false)
				if info.inDomain {
					res.count("in_domain_cases", 1)
				}
				if info.o.Panic == "" && !info.o.Hang {
					m2, n := c06Subst(pc, info.o, info.ex)
					msgs = append(msgs, m2...)
					res.count("alias_substitutions_compared", int64(n))
					res.Traces += int64(n)
				}
				if len(msgs) > 0 {
					res.violate(Violation{Prop: "C06", Msg: fmt.Sprintf("%s  [%s env=%v argv=%q]", msgs[0], def.ConfigString(), envOf[def], argv), Case: newCase("C06", def, envOf[def], argv, false), Weight: len(argv), Test: goTest(def, envOf[def], argv, msgs[0])})
				}
				if res.Evaluations%20000 == 1 {
					res.sample(map[string]any{"config": def.ConfigString(), "env": envOf[def], "argv": append([]string{}, argv...)})
				}
			}
			sw.run()
			c.Res.Distinct = c.Res.Counters["in_domain_cases"]
		},
		Replay:     replayParser,
		GateCounts: []string{"in_domain_cases", "alias_substitutions_compared"},
	})
}

// ---------------------------------------------------------------------------
// C12: command line > environment > default

// c12SecondParse: a further Parse of an empty command line on the same object changes nothing - what the environment
// (or the earlier command line) provided is still there, still Called, still CalledAs the same name.
func c12SecondParse(def *ph.Def, env map[string]string, argv []string) []string {
	p := ph.Build(def, env)
	defer p.Close()
	o1 := p.Run(argv, false)
	if o1.Panic != "" || o1.Hang || o1.HasErr {
		return nil
	}
	p.Reset()
	o2 := p.Run([]string{}, false)
	if o2.Panic != "" || o2.Hang {
		return nil
	}
	var out []string
	if o2.HasErr {
		return []string{fmt.Sprintf("second Parse (empty command line) on the same object fails: %s", o2.ParseErr)}
	}
	for k, v := range o1.Vals {
		if o2.Vals[k] != v || o2.Called[k] != o1.Called[k] || o2.CalledAs[k] != o1.CalledAs[k] {
			out = append(out, fmt.Sprintf("a second Parse of an empty command line on the same object changes option %s from %s (called=%v as %q) to %s (called=%v as %q)", k, v, o1.Called[k], o1.CalledAs[k], o2.Vals[k], o2.Called[k], o2.CalledAs[k]))
		}
	}
	return out
}

func init() {
	parserJudges["C12"] = func(pc *parserCase, verbose bool) []string {
		msgs, _ := judgeSpec(pc, c06Facets, verbose)
		if len(msgs) == 0 {
			msgs = c12SecondParse(pc.Def, pc.Env, pc.Argv)
		}
		return msgs
	}
	register(&Check{
		ID:        "C12",
		QuickSecs: 900, ThoroSecs: 300,
		Rule: "complete product: 7 option kinds (bool, string, int, float64 and the optional-value forms) x 2-3 defaults x *Var or pointer form x 32 environment texts (unset, empty, valid, invalid, mixed case booleans, padded, equal to default, equal to the command-line value) x 14 command-line forms (absent, --n=v, --n v, -n v, bare --n, twice, inside a command, before an UnsetOptions wrapper command, the empty string as a separate value token, attached values with a comma) x 3 modes x {option declared at the root, option declared on a command, variable set after New() but before the declaration, GetEnv followed by SetCalled(true)}; " +
			"value, Called and CalledAs compared with the three-way precedence rule of the reference model, and again after a second Parse of an empty command line on the same object (nothing may change); distinct_nontrivial = distinct in-domain cases",
		Assume: []string{"other environment texts are not covered; invalid numeric environment text leaves Called unspecified (zone U11) and only the value is compared"},
		Run: func(c *RunCtx) {
			res := c.Res
			envs := []string{"\x00unset", "", "true", "false", "TRUE", "False", "tRuE", "1", "0", " 1", "1.5", "abc", "42", "-3", "1e3", "yes", "D", "cli", "7",
				"010", "08", "0x1f", "1_000", "0b101", "-017", "+5", "5\n", "\ttrue", " ", "1,5", "a,b", "true,false"} // zero-padded / prefixed numerals, padded texts, blanks only
			type kd struct {
				k    ph.Kind
				defs []ph.OptDef
			}
			kinds := []kd{
				{ph.Bool, []ph.OptDef{{DefB: false}, {DefB: true}}},
				{ph.Str, []ph.OptDef{{DefS: ""}, {DefS: "D"}}},
				{ph.Int, []ph.OptDef{{DefI: 0}, {DefI: 7}}},
				{ph.Flt, []ph.OptDef{{DefF: 0}, {DefF: 1.5}}},
				{ph.StrOpt, []ph.OptDef{{DefS: ""}, {DefS: "D"}}},
				{ph.IntOpt, []ph.OptDef{{DefI: 0}, {DefI: 7}}},
				{ph.FltOpt, []ph.OptDef{{DefF: 0}, {DefF: 1.5}}},
			}
			cliVal := func(k ph.Kind) string {
				switch k {
				case ph.Int, ph.IntOpt:
					return "42"
				case ph.Flt, ph.FltOpt:
					return "1e3"
				}
				return "cli"
			}
			res.Bounds = map[string]any{"environment_texts": envs, "kinds": len(kinds)}
			idx := 0
			for _, kdef := range kinds {
				for _, od := range kdef.defs {
					for _, isVar := range []bool{false, true} {
						for mode := 0; mode < 3; mode++ {
							for variant := 0; variant < 4; variant++ { // 0: option at the root; 1: option declared on a command; 2: variable set after New(); 3: GetEnv followed by SetCalled(true)
								idx++
								if !c.mine(idx) {
									continue
								}
								o := od
								o.Name, o.Kind, o.Var, o.Env = "n", kdef.k, isVar, "VERIF_C12_VAR"
								o.SetCalled = variant == 3
								def := &ph.Def{Mode: mode, Unknown: 0, LateEnv: variant == 2, Root: ph.CmdDef{Name: "prog", Opts: []ph.OptDef{o, {Name: "other", Kind: ph.Bool}}, Cmds: []*ph.CmdDef{{Name: "c"}, {Name: "w", Unset: true, Unknown: 3}}}}
								if variant == 1 {
									def = &ph.Def{Mode: mode, Unknown: 0, Root: ph.CmdDef{Name: "prog", Opts: []ph.OptDef{{Name: "other", Kind: ph.Bool}}, Cmds: []*ph.CmdDef{{Name: "c", Opts: []ph.OptDef{o}}}}}
								}
								res.States++
								v := cliVal(kdef.k)
								var clis [][]string
								clis = append(clis, []string{}, []string{"--n"}, []string{"c", "--n"}, []string{"--other"}, []string{"w"}, []string{"w", "-x"})
								if kdef.k != ph.Bool {
									clis = append(clis, []string{"--n=" + v}, []string{"--n", v}, []string{"-n", v}, []string{"--n=" + v, "--n=" + v}, []string{"c", "--n=" + v}, []string{"--n", ""}, []string{"--n", "", "--other"}, []string{"--n=" + v + "," + v}, []string{"--n=,"}, []string{"--n=,", "p"})
								} else {
									clis = append(clis, []string{"-n"}, []string{"--n", "--n"})
								}
								for _, e := range envs {
									var env map[string]string
									if e != "\x00unset" {
										env = map[string]string{"VERIF_C12_VAR": e}
									}
									for _, argv := range clis {
										if variant == 1 {
											if len(argv) > 0 && argv[0] == "c" {
												continue
											}
											argv = append([]string{"c"}, argv...)
										}
										pc := &parserCase{Check: "C12", Def: def, Env: env, Argv: argv}
										res.Evaluations++
										res.Traces++
										res.Transitions += int64(len(argv) + 1)
										// zone U11 only leaves Called open after an invalid numeric text: still compare values
										ex := ph.SpecParse(def, env, argv)
										onlyU11 := len(ex.Unspec) == 1 && ex.Unspec[0] == "U11"
										var msgs []string
										if onlyU11 {
											p := ph.Build(def, env)
											out := p.Run(argv, false)
											p.Close()
											ex.Unspec = nil
											msgs = ph.Compare(ex, out, ph.Facets{Err: true, Remaining: true, Vals: true})
											res.count("cases_with_invalid_numeric_environment_text", 1)
											res.count("in_domain_cases", 1)
										} else {
											var info specInfo
											msgs, info = judgeSpec(pc, c06Facets, false)
											if info.inDomain {
												res.count("in_domain_cases", 1)
												if env != nil && ex.CalledAs["/n"] == "VERIF_C12_VAR" {
													res.count("in_domain_value_taken_from_environment", 1)
												}
												if env != nil && env["VERIF_C12_VAR"] != "" && ex.Called["/n"] && ex.CalledAs["/n"] != "VERIF_C12_VAR" {
													res.count("in_domain_command_line_overrides_environment", 1)
												}
											}
										}
										if len(msgs) == 0 {
											msgs = c12SecondParse(def, env, argv)
											res.count("second_parse_compared", 1)
										}
										if len(msgs) > 0 {
											res.violate(Violation{Prop: "C12", Msg: fmt.Sprintf("%s  [%s kind=%s default=%v var=%v env=%q argv=%q]", msgs[0], def.ConfigString(), kdef.k, od, isVar, e, argv), Case: newCase("C12", def, env, argv, false), Weight: len(argv), Test: goTest(def, env, argv, msgs[0])})
										}
										if res.Evaluations%3000 == 1 {
											res.sample(map[string]any{"kind": kdef.k.String(), "env": e, "argv": argv, "mode": mode})
										}
									}
								}
							}
						}
					}
				}
			}
			res.Distinct = res.Counters["in_domain_cases"]
		},
		Replay:     replayParser,
		GateCounts: []string{"in_domain_cases", "in_domain_value_taken_from_environment", "in_domain_command_line_overrides_environment", "cases_with_invalid_numeric_environment_text"},
	})
}
