package main

import (
	"encoding/json"
	"fmt"
	"os"
	"sort"
	"strings"
	"time"

	"github.com/DavidGamba/go-getoptions/verifrt"

	"verif/explore"
	"verif/harness/ph"
)

// definitions with at least two entries in every internal table
func defsC20() []*ph.Def {
	var out []*ph.Def
	for mode := 0; mode < 3; mode++ {
		for unknown := 0; unknown < 3; unknown++ {
			out = append(out, &ph.Def{Mode: mode, Unknown: unknown, Help: "help", HelpAliases: []string{"?", "h"}, Root: ph.CmdDef{Name: "prog", Desc: "determinism",
				Opts: []ph.OptDef{
					{Name: "verbose", Kind: ph.Bool, Aliases: []string{"v"}},
					{Name: "version", Kind: ph.Bool},
					{Name: "verify", Kind: ph.Str, DefS: "D", Aliases: []string{"vfy"}, Suggested: []string{"sv2", "sv1", "sv3"}},
					{Name: "level", Kind: ph.Str, Aliases: []string{"lvl"}},
					{Name: "color", Kind: ph.Str, Aliases: []string{"colour", "colr"}},
					{Name: "list", Kind: ph.StrS, Min: 1, Max: 2},
					{Name: "map", Kind: ph.Map, Min: 1, Max: 2},
				},
				ArgCompl: []string{"zarg", "aarg", "marg"},
				Cmds: []*ph.CmdDef{
					{Name: "build", Desc: "b", Opts: []ph.OptDef{{Name: "target", Kind: ph.Str, Required: true}, {Name: "arch", Kind: ph.Str, Required: true, ReqMsg: "arch missing"}, {Name: "os", Kind: ph.Str, Required: true}}},
					{Name: "bundle", Desc: "bu", Cmds: []*ph.CmdDef{{Name: "x1", Desc: "the other x1"}, {Name: "x3"}}},                                                // x1 exists under two parents
					{Name: "zap", Desc: "z", Opts: []ph.OptDef{{Name: "host", Kind: ph.Str, Aliases: []string{"h"}}}, Cmds: []*ph.CmdDef{{Name: "x1"}, {Name: "x2"}}}, // `h` is taken over by the help option declared last
				},
			}})
		}
	}
	// a second, smaller program: a caller-owned map that already holds entries, option pairs sharing a prefix with
	// different argument names and suggestions, four environment-bound options whose variables all hold unusable text
	for mode := 0; mode < 3; mode++ {
		out = append(out, &ph.Def{Mode: mode, Unknown: 1, Help: "help", MapLower: true, Root: ph.CmdDef{Name: "prog", Desc: "determinism 2",
			Opts: []ph.OptDef{
				{Name: "verbose", Kind: ph.Bool, Aliases: []string{"v"}},
				{Name: "version", Kind: ph.Bool},
				{Name: "verify", Kind: ph.Str, DefS: "D", Suggested: []string{"sv2", "sv1", "sv3"}},
				{Name: "defs", Kind: ph.Map, Min: 1, Max: 1, Var: true, Preset: [][2]string{{"k2", "v2"}, {"k1", "v1"}, {"k3", "v3"}}},
				{Name: "e1", Kind: ph.Int, Env: "VERIF_C20_E1"}, {Name: "e2", Kind: ph.Flt, Env: "VERIF_C20_E2"}, {Name: "e3", Kind: ph.Bool, Env: "VERIF_C20_E3"}, {Name: "e4", Kind: ph.IntOpt, Env: "VERIF_C20_E4"},
				{Name: "time", Kind: ph.Int, ArgName: "seconds"},
				{Name: "timeout", Kind: ph.Str, ArgName: "duration", Suggested: []string{"1s", "1m"}},
				{Name: "kv", Kind: ph.Map, Min: 1, Max: 3}, // SetMapKeysToLower is on: keys that differ only in case collide
			},
			Cmds: []*ph.CmdDef{{Name: "c1"}, {Name: "c2"}},
		}})
	}
	// several missing required options at the root
	for _, ro := range []bool{false, true} {
		out = append(out, &ph.Def{RequireOrder: ro, Help: "help", Root: ph.CmdDef{Name: "prog",
			Opts: []ph.OptDef{
				{Name: "alpha", Kind: ph.Str, Required: true},
				{Name: "beta", Kind: ph.Int, Required: true, ReqMsg: "beta is needed"},
				{Name: "gamma", Kind: ph.Bool, Required: true, Aliases: []string{"g"}},
				{Name: "delta", Kind: ph.StrS, Min: 1, Max: 1, Required: true},
			},
			Cmds: []*ph.CmdDef{{Name: "c1"}, {Name: "c2"}},
		}})
	}
	// unknown options that are equally close to two declared names (a "did you mean" must not depend on the table order)
	for _, unknown := range []int{0, 1} {
		out = append(out, &ph.Def{Unknown: unknown, Help: "help", Root: ph.CmdDef{Name: "prog",
			Opts: []ph.OptDef{
				{Name: "host", Kind: ph.Str}, {Name: "port", Kind: ph.Int}, {Name: "min", Kind: ph.Int}, {Name: "max", Kind: ph.Int, Aliases: []string{"mox"}},
				{Name: "x", Kind: ph.Bool}, {Name: "X", Kind: ph.Bool}, {Name: "Max", Kind: ph.Bool}, // names that differ only in case
			},
			Cmds: []*ph.CmdDef{{Name: "c1"}, {Name: "c2"}},
		}})
	}
	return out
}

var c20Argvs = [][]string{
	{}, {"--col=x"}, {"--colo", "x"}, {"--col"}, {"--ver"}, {"--ve"}, {"--v"}, {"--l"}, {"--l=x"}, {"--le", "x"}, {"--lv", "x"}, {"--unk1", "--unk2"}, {"--unk2", "--unk1", "-u"}, {"-vz"}, {"--zz=1", "--yy=2"},
	{"build"}, {"build", "--target", "t"}, {"build", "--arch=a"}, {"build", "--unk"}, {"bu"}, {"b"}, {"zap"}, {"zap", "x1"}, {"help"}, {"help", "build"}, {"help", "zap"}, {"build", "help"},
	{"--help"}, {"build", "--help"}, {"zap", "--he"}, {"--map", "k=v", "a=b"}, {"--map", "b=1", "--map", "a=2"}, {"--list", "x", "y"}, {"--verify"}, {"--verify=sv"}, {"--alpha=1"}, {"--beta=2", "--gamma"},
	{"--alpha=1", "--beta=2", "--gamma"}, {"c1"}, {"c1", "--alpha=1"}, {"p", "--unk", "c2"}, {"--", "x"}, {"--ver", "--unk"},
	{"--defs", "a=b"}, {"--time", "5", "--timeout", "1s"}, {"--tim", "5"},
	{"help", "x1"}, {"help", "x3"}, {"bundle", "help", "x1"}, {"help", "nosuch"},
	{"--post"}, {"--mix"}, {"--mix", "--post", "c1"},
	{"--kv", "Level=debug", "LEVEL=info", "level=x"}, {"--kv", "A=1", "--kv", "a=2"}, {"zap", "x1", "-h"}, {"zap", "-h"}, {"zap", "-h", "v", "x2"},
}

// environment of every C20 case: several bound variables hold unusable text at the same time
var c20Env = map[string]string{"VERIF_C20_E1": "one", "VERIF_C20_E2": "two", "VERIF_C20_E3": "maybe", "VERIF_C20_E4": "4x"}

var c20CompLines = []string{"prog ", "prog -", "prog --", "prog --ver", "prog --verify=", "prog --verify=sv", "prog b", "prog build ", "prog build --", "prog zap ", "prog help ", "prog build help ", "prog --l", "prog a", "prog --map=",
	// options already given earlier on the line
	"prog --version --verbose --ver", "prog --time 5 --t", "prog --timeout 1s --time 5 --ti", "prog --level x --l", "prog --verify sv1 --version --ver", "prog --defs a=b --d"}

// c20Observe runs the whole pipeline for one case and renders everything observable.
func c20Observe(def *ph.Def, argv []string, compLine string) string {
	var b strings.Builder
	if compLine != "" {
		os.Setenv("COMP_LINE", compLine)
		defer os.Unsetenv("COMP_LINE")
	}
	p := ph.Build(def, c20Env)
	defer p.Close()
	if c20Cancelled {
		p.CancelCtx()
	}
	o := p.Run(argv, true)
	fmt.Fprintf(&b, "panic=%q hang=%v err=%q remaining=%q warnings=%q\n", firstLine(o.Panic), o.Hang, o.ParseErr, o.Remaining, o.Warnings)
	keys := make([]string, 0, len(o.Vals))
	for k := range o.Vals {
		keys = append(keys, k)
	}
	sort.Strings(keys)
	for _, k := range keys {
		fmt.Fprintf(&b, "%s=%s called=%v as=%q\n", k, o.Vals[k], o.Called[k], o.CalledAs[k])
	}
	fmt.Fprintf(&b, "dispatch err=%q calls=%v writer=%q\n", o.DErr, callPaths(o), o.WDispatch)
	fmt.Fprintf(&b, "completion=%q exits=%v\n", p.Comp.String(), p.Exits)
	if compLine == "" {
		h, pn, hg := p.Help()
		fmt.Fprintf(&b, "help=%q %q %v\n", h, firstLine(pn), hg)
	}
	return b.String()
}

// c20Cancelled: the context handed to Dispatch is already cancelled (set by the schedule unit only)
var c20Cancelled bool

// c20Schedules: whatever goroutines Parse / Dispatch start, the result does not depend on how they are scheduled -
// every schedule with at most two deviations, under the controlled scheduler, with a cancelled and with a live context.
func c20Schedules(c *RunCtx, def *ph.Def, argv []string, cancelled bool) (*explore.Violation, *explore.Explorer) {
	base := ""
	ex := &explore.Explorer{Budget: explore.Budget{K: 2, D: 0}, Deadline: c.Deadline, MaxExecs: 50000}
	ex.Run = func(ch *explore.Chooser) string {
		var obs string
		c20Cancelled = cancelled
		r := verifrt.Run(verifrt.Config{Chooser: ch, MaxSteps: 50000}, func() { obs = c20Observe(def, argv, "") })
		c20Cancelled = false
		if r.Status != verifrt.StatusOK {
			obs += "status " + r.Status + ": " + r.Detail + "\n"
		}
		if len(ch.Prefix) == 0 {
			base = obs
			return ""
		}
		if obs != base {
			return "result depends on the schedule of the goroutines the library starts: " + strings.Replace(strings.Replace(diffLine(base, obs), "default map order:", "default schedule:", 1), "other order:", "other schedule:", 1)
		}
		return ""
	}
	v := ex.Explore()
	return v, ex
}

type c20Case struct {
	Def      *ph.Def  `json:"def"`
	Argv     []string `json:"argv"`
	CompLine string   `json:"comp_line,omitempty"`
	Choices  []int    `json:"choices"`
	Timing   bool     `json:"timing,omitempty"`
	Sched    int      `json:"sched,omitempty"` // 1: schedule exploration with a live context, 2: with a cancelled one // the case compares a slow and a fast answer of the dynamic completion function
}

// c20Timing: the completion list does not depend on how long a dynamic completion function takes to answer (a cold and
// a warm cache give the same list).
func c20Timing(def *ph.Def, line string) string {
	saved := ph.SlowFnDelay
	defer func() { ph.SlowFnDelay = saved }()
	ph.SlowFnDelay = 1500 * time.Millisecond
	slow := c20Observe(def, nil, line)
	ph.SlowFnDelay = 0
	fast := c20Observe(def, nil, line)
	if slow != fast {
		return "result depends on how long a completion function takes: " + strings.Replace(diffLine(slow, fast), "default map order:", "slow answer:", 1)
	}
	return ""
}

func c20TimingDef() *ph.Def {
	return &ph.Def{Help: "help", Root: ph.CmdDef{Name: "prog", Opts: []ph.OptDef{{Name: "verbose", Kind: ph.Bool}},
		ArgCompl: []string{"local-a"}, ArgFn: true, ArgFnSlow: true, Cmds: []*ph.CmdDef{{Name: "run", ArgFnSlow: true}}}}
}

func diffLine(a, b string) string {
	la, lb := strings.Split(a, "\n"), strings.Split(b, "\n")
	for i := range la {
		if i >= len(lb) || la[i] != lb[i] {
			other := ""
			if i < len(lb) {
				other = lb[i]
			}
			return fmt.Sprintf("default map order: %s | other order: %s", abbreviate(la[i], 220), abbreviate(other, 220))
		}
	}
	return "outputs differ in length"
}

func c20Explore(c *RunCtx, def *ph.Def, argv []string, compLine string, d int) (*explore.Violation, *explore.Explorer) {
	base := ""
	ex := &explore.Explorer{Budget: explore.Budget{K: 0, D: d}, Deadline: c.Deadline}
	ex.Run = func(ch *explore.Chooser) string {
		verifrt.SetOrderer(ch)
		obs := c20Observe(def, argv, compLine)
		verifrt.SetOrderer(nil)
		if len(ch.Prefix) == 0 {
			base = obs
			return ""
		}
		if obs != base {
			return "result depends on map iteration order: " + diffLine(base, obs)
		}
		return ""
	}
	v := ex.Explore()
	return v, ex
}

func init() {
	register(&Check{
		ID:        "C20",
		QuickSecs: 900, ThoroSecs: 3000,
		Rule: "exploration of hidden nondeterminism: Go's randomised map iteration is replaced (build-time instrumentation of all 22 map ranges of the library) by an explorer-chosen rotation of the sorted key order; for 16 definitions with >= 2 entries in every internal table (options, aliases, commands, suggestions, required options) x 58 argv and 21 COMP_LINE texts, four environment-bound options whose variables all hold unusable text, provoking several simultaneous diagnostics, " +
			"every execution with <= d non-default rotations is run (bounded-deviation DFS over the range executions) and its complete observation vector (values, remaining, error text, warnings, dispatch result, help text, completion list) must be identical to the default-order run; additionally the same case is run twice with the native map order, and two completion lines are run with a dynamic completion function that answers after 1.5 s and at once (the list must not depend on it), and 16 Parse+Dispatch cases (live and already cancelled context) are run under the controlled scheduler for every schedule with <= 2 deviations of whatever goroutines the library starts; " +
			"states = choice points visited, transitions = range executions, distinct_nontrivial = cases whose execution has at least one order choice point",
		Assume: []string{"iteration orders are rotations of the sorted key order (every element comes first under some rotation); other permutations are not explored", "definitions and inputs outside the stated lists are not covered"},
		Run: func(c *RunCtx) {
			res := c.Res
			d := 1
			if c.Tier == "thorough" {
				d = 2
			}
			defs := defsC20()
			res.Bounds = map[string]any{"d": d, "definitions": len(defs), "argv": len(c20Argvs), "comp_lines": len(c20CompLines)}
			type unit struct {
				def  *ph.Def
				argv []string
				comp string
			}
			var units []unit
			for _, def := range defs {
				for _, a := range c20Argvs {
					units = append(units, unit{def, a, ""})
				}
				for _, l := range c20CompLines {
					units = append(units, unit{def, nil, l})
				}
			}
			for {
				u := c.claim()
				if u == len(units) {
					// timing of the environment: two completion lines, each with a slow and a fast completion function
					for _, line := range []string{"prog ", "prog run "} {
						res.Evaluations += 2
						res.Traces += 2
						res.count("timing_cases", 1)
						if msg := c20Timing(c20TimingDef(), line); msg != "" {
							cc := c20Case{Def: c20TimingDef(), CompLine: line, Timing: true}
							raw, _ := jsonMarshal(cc)
							res.violate(Violation{Prop: "C20", Msg: fmt.Sprintf("%s  [COMP_LINE=%q]", msg, line), Case: raw, Weight: 1})
						}
					}
					continue
				}
				if u == len(units)+1 {
					// schedules of whatever goroutines the library starts (none at present: one execution each)
					for _, argv := range [][]string{{}, {"c1"}, {"--unk1"}, {"build", "--target=t", "--arch=a", "--os=o"}} {
						for _, def := range []*ph.Def{defs[0], defs[len(defs)-1]} {
							for _, cancelled := range []bool{false, true} {
								v, ex := c20Schedules(c, def, argv, cancelled)
								res.Evaluations += ex.Stats.Execs
								res.Traces += ex.Stats.Execs
								res.count("schedule_cases", 1)
								if ex.ToolError != "" {
									res.ToolError = ex.ToolError
									return
								}
								if v != nil {
									sm := 1
									if cancelled {
										sm = 2
									}
									cc := c20Case{Def: def, Argv: argv, Choices: v.Choices, Sched: sm}
									raw, _ := jsonMarshal(cc)
									res.violate(Violation{Prop: "C20", Msg: fmt.Sprintf("%s  [%s argv=%q cancelled context=%v]", v.Msg, def.ConfigString(), argv, cancelled), Case: raw, Weight: len(argv)})
								}
							}
						}
					}
					continue
				}
				if u > len(units)+1 || len(res.Violations) >= 3 {
					break
				}
				if c.expired() {
					res.Capped = true
					break
				}
				un := units[u]
				// quick: two simultaneous order deviations on every 24th case; thorough: on all
				dd := d
				if d == 1 && u%24 == 0 {
					dd = 2
				}
				v, ex := c20Explore(c, un.def, un.argv, un.comp, dd)
				res.Evaluations += ex.Stats.Execs
				res.Traces += ex.Stats.Execs
				res.States += ex.Stats.NewPoints
				res.Transitions += int64(ex.Stats.MaxPoints) * ex.Stats.Execs
				if ex.Stats.MaxPoints > 0 {
					res.Distinct++
				}
				if ex.Stats.Capped {
					res.Capped = true
				}
				res.count("cases", 1)
				res.count("order_choice_points_in_default_runs", int64(ex.Stats.MaxPoints))
				if ex.ToolError != "" {
					res.ToolError = ex.ToolError
					return
				}
				// native order, twice in this process
				a := c20Observe(un.def, un.argv, un.comp)
				b := c20Observe(un.def, un.argv, un.comp)
				res.count("native_order_repetitions", 2)
				if v == nil && a != b {
					v = &explore.Violation{Msg: "two runs with the native map order differ: " + diffLine(a, b)}
				}
				if v != nil {
					cc := c20Case{Def: un.def, Argv: un.argv, CompLine: un.comp, Choices: v.Choices}
					raw, _ := jsonMarshal(cc)
					res.violate(Violation{Prop: "C20", Msg: fmt.Sprintf("%s  [%s argv=%q COMP_LINE=%q]", v.Msg, un.def.ConfigString(), un.argv, un.comp), Case: raw, Weight: len(un.argv)})
				}
				if u%40 == 0 {
					res.sample(map[string]any{"config": un.def.ConfigString(), "argv": un.argv, "comp_line": un.comp, "executions": ex.Stats.Execs, "order_choice_points": ex.Stats.MaxPoints})
				}
			}
		},
		Replay:     replayC20,
		GateCounts: []string{"cases", "order_choice_points_in_default_runs"},
	})
}

func replayC20(raw json.RawMessage) (string, error) {
	var cc c20Case
	if err := json.Unmarshal(raw, &cc); err != nil {
		return "", err
	}
	if cc.Timing {
		return c20Timing(cc.Def, cc.CompLine), nil
	}
	if cc.Sched > 0 {
		run := func(prefix []int) string {
			var obs string
			c20Cancelled = cc.Sched == 2
			ch := &explore.Chooser{Prefix: prefix}
			r := verifrt.Run(verifrt.Config{Chooser: ch, MaxSteps: 50000}, func() { obs = c20Observe(cc.Def, cc.Argv, "") })
			c20Cancelled = false
			if r.Status != verifrt.StatusOK {
				obs += "status " + r.Status + ": " + r.Detail + "\n"
			}
			return obs
		}
		base, obs := run(nil), run(cc.Choices)
		fmt.Printf("argv=%q choices=%v\n--- default schedule ---\n%s--- chosen schedule ---\n%s", cc.Argv, cc.Choices, base, obs)
		if obs != base {
			return "result depends on the schedule of the goroutines the library starts: " + diffLine(base, obs), nil
		}
		return "", nil
	}
	verifrt.SetOrderer(&explore.Chooser{})
	base := c20Observe(cc.Def, cc.Argv, cc.CompLine)
	ch := &explore.Chooser{Prefix: cc.Choices}
	verifrt.SetOrderer(ch)
	obs := c20Observe(cc.Def, cc.Argv, cc.CompLine)
	verifrt.SetOrderer(nil)
	fmt.Printf("argv=%q COMP_LINE=%q choices=%v\n--- default order ---\n%s--- chosen order ---\n%s", cc.Argv, cc.CompLine, cc.Choices, base, obs)
	if ch.Diverged != "" {
		return "", fmt.Errorf("replay diverged: %s", ch.Diverged)
	}
	if obs != base {
		return "result depends on map iteration order: " + diffLine(base, obs), nil
	}
	return "", nil
}
