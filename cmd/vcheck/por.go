package main

import (
	"fmt"
	"os"
	"sort"
	"strconv"
	"strings"
	"time"

	"verif/explore"
	"verif/harness/dagh"
)

// porScenario explores one scenario without any deviation bound, with sleep sets, for every
// map-rotation policy; returns the first violation message, statistics and the set of observations.
func porScenario(id string, sc *dagh.Scenario, deadline time.Time, noReduce bool, maxExecs int64) (msg string, choices []int, policy int, st explore.SSStats, obs map[string]bool, toolErr string) {
	obs = map[string]bool{}
	for pol := 0; pol < sc.N; pol++ {
		ex := &explore.SSExplorer{Policy: pol, Deadline: deadline, NoReduce: noReduce, MaxExecs: maxExecs}
		ex.Run = func(c *explore.SSChooser) string {
			fs, o, _, r := dagh.ExecutePOR(sc, c, nil)
			if r.Status == "pruned" {
				return ""
			}
			obs[o.Key()] = true
			var mine []string
			for _, f := range fs {
				if propMatches(id, f) {
					mine = append(mine, f.Msg)
				}
			}
			return strings.Join(mine, "; ")
		}
		v := ex.Explore()
		st.Execs += ex.Stats.Execs
		st.Pruned += ex.Stats.Pruned
		st.NewPoints += ex.Stats.NewPoints
		if ex.Stats.MaxPoints > st.MaxPoints {
			st.MaxPoints = ex.Stats.MaxPoints
		}
		st.Capped = st.Capped || ex.Stats.Capped
		if ex.ToolError != "" {
			return "", nil, pol, st, obs, ex.ToolError
		}
		if v != nil {
			return v.Msg, v.Choices, pol, st, obs, ""
		}
	}
	return "", nil, 0, st, obs, ""
}

// scScenario explores one scenario without any deviation bound, with visited-state pruning, for every
// map-rotation policy; returns the first violation, statistics and the set of observations.
func scScenario(id string, sc *dagh.Scenario, deadline time.Time, maxStates int64) (msg string, choices []int, policy int, st explore.SCStats, obs map[string]bool, toolErr string) {
	obs = map[string]bool{}
	for pol := 0; pol < sc.N; pol++ {
		ex := &explore.SCExplorer{Policy: pol, Deadline: deadline, MaxStates: maxStates}
		ex.Run = func(c *explore.SCChooser) string {
			fs, o, _, r := dagh.ExecutePOR(sc, c, nil)
			if r.Status == "pruned" {
				// a cut-off execution is judged as far as it got: the oracles evaluated during the run (enter, exit)
				// have spoken; the end-of-run oracles belong to the execution that reached this state first
				var mine []string
				for _, f := range fs {
					if propMatches(id, f) && f.Known == "" && !f.AtEnd {
						mine = append(mine, f.Msg)
					}
				}
				return strings.Join(mine, "; ")
			}
			obs[o.Key()] = true
			var mine []string
			for _, f := range fs {
				if propMatches(id, f) && f.Known == "" {
					mine = append(mine, f.Msg)
				}
			}
			return strings.Join(mine, "; ")
		}
		v := ex.Explore()
		st.Execs += ex.Stats.Execs
		st.States += ex.Stats.States
		st.Pruned += ex.Stats.Pruned
		st.Complete += ex.Stats.Complete
		if ex.Stats.MaxPoints > st.MaxPoints {
			st.MaxPoints = ex.Stats.MaxPoints
		}
		st.Capped = st.Capped || ex.Stats.Capped
		if ex.ToolError != "" {
			return "", nil, pol, st, obs, ex.ToolError
		}
		if v != nil {
			return v.Msg, v.Choices, pol, st, obs, ""
		}
	}
	return "", nil, 0, st, obs, ""
}

// porDebug prints per-scenario statistics of the sleep-set mode (development aid).
func porDebug(id string, limit int) int {
	n := 0
	for _, sc := range dagh.Family(id, "quick") {
		if sc.N > 3 || !sc.Canon || sc.Light != 0 {
			continue
		}
		n++
		if skip, _ := strconv.Atoi(os.Getenv("POR_SKIP")); n <= skip {
			continue
		}
		if minN, _ := strconv.Atoi(os.Getenv("POR_MINN")); sc.N < minN {
			n--
			continue
		}
		if n > limit {
			break
		}
		t0 := time.Now()
		secs, _ := strconv.Atoi(os.Getenv("POR_SECS"))
		if secs == 0 {
			secs = 60
		}
		if os.Getenv("POR_STATECACHE") != "" {
			msg, _, _, st, obs, terr := scScenario(id, sc, time.Now().Add(time.Duration(secs)*time.Second), 0)
			line := fmt.Sprintf("STATECACHE states=%d execs=%d pruned=%d complete=%d maxpoints=%d obs=%d capped=%v %.1fs", st.States, st.Execs, st.Pruned, st.Complete, st.MaxPoints, len(obs), st.Capped, time.Since(t0).Seconds())
			if os.Getenv("POR_SELFCHECK") != "" {
				// against the sleep-set exploration (complete when it is not capped)
				_, _, _, st2, obs2, _ := porScenario(id, sc, time.Now().Add(60*time.Second), false, 0)
				missing, extra := 0, 0
				for k := range obs2 {
					if !obs[k] {
						missing++
					}
				}
				for k := range obs {
					if !obs2[k] {
						extra++
					}
				}
				verdict := "EQUAL"
				if missing > 0 {
					verdict = "STATECACHE-MISSES-OBSERVATIONS"
				} else if extra > 0 && !st2.Capped {
					verdict = "SLEEPSET-MISSES-OBSERVATIONS"
				} else if extra > 0 {
					verdict = "superset(of capped sleep-set run)"
				}
				line += fmt.Sprintf(" | sleepset execs=%d obs=%d capped=%v missing=%d extra=%d %s", st2.Execs, len(obs2), st2.Capped, missing, extra, verdict)
			}
			fmt.Printf("%s  %s  %s %s\n", line, sc, msg, terr)
			continue
		}
		msg, _, _, st, obs, terr := porScenario(id, sc, time.Now().Add(time.Duration(secs)*time.Second), false, 200000000)
		line := fmt.Sprintf("execs=%d pruned=%d maxpoints=%d obs=%d capped=%v %.1fs", st.Execs, st.Pruned, st.MaxPoints, len(obs), st.Capped, time.Since(t0).Seconds())
		if sc.N <= 2 && os.Getenv("POR_SELFCHECK") != "" {
			_, _, _, st2, obs2, _ := porScenario(id, sc, time.Now().Add(120*time.Second), true, 3000000)
			same := len(obs) == len(obs2)
			for k := range obs2 {
				if !obs[k] {
					same = false
				}
			}
			line += fmt.Sprintf(" | unreduced execs=%d obs=%d capped=%v same_observations=%v", st2.Execs, len(obs2), st2.Capped, same)
			if !same && !st2.Capped {
				var miss []string
				for k := range obs2 {
					if !obs[k] {
						miss = append(miss, k)
					}
				}
				sort.Strings(miss)
				line += fmt.Sprintf(" MISSING %q", miss[:1])
			}
		}
		fmt.Printf("%s  %s  %s %s\n", line, sc, msg, terr)
	}
	return 0
}
