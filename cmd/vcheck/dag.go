package main

import (
	"encoding/json"
	"fmt"
	"os"
	"sort"
	"strconv"
	"strings"
	"time"

	"verif/explore"
	"verif/harness/dagh"
)

type dagCase struct {
	Scenario *dagh.Scenario `json:"scenario"`
	Choices  []int          `json:"choices"`
	K        int            `json:"k"`
	D        int            `json:"d"`
	Trace    []string       `json:"trace,omitempty"`
	POR      bool           `json:"sleep_set_mode,omitempty"` // choices are thread ids of the sleep-set exploration, D is the rotation policy
}

// dagPass is one sweep over a scenario family with fixed deviation budgets.
type dagPass struct {
	Family string `json:"family"`
	Canon  bool   `json:"canonical_shapes_only"` // only the representative labelling of every graph shape
	K      int    `json:"k"`
	D      int    `json:"d"`
}

// dagPasses lists, per property and tier, the sweeps that make up the check.
func dagPasses(id, tier string) []dagPass {
	thorough := tier == "thorough"
	var ps []dagPass
	fam := id
	if !thorough {
		ps = []dagPass{
			{fam, false, 0, 0}, // default schedule, all completion orders (fast failure on gross defects)
			{fam, false, 1, 0}, // every labelled graph: one scheduling deviation
			{fam, false, 0, 1}, // every labelled graph: one map-order deviation
			{fam, true, 2, 0},  // every graph shape: two scheduling deviations
			{fam, true, 1, 1},  // every graph shape: one of each
		}
	} else {
		ps = []dagPass{
			{fam, false, 0, 0},
			{fam, false, 2, 1},
			{fam, true, 3, 0},
			{fam, true, 2, 2},
		}
	}
	if id == "C16" {
		if !thorough {
			ps = append(ps, dagPass{"C16hist", false, 0, 1}, dagPass{"C16sort", false, 0, 2})
		} else {
			ps = append(ps, dagPass{"C16hist", false, 1, 1}, dagPass{"C16sort", false, 0, 3})
		}
	}
	if v, err := strconv.Atoi(os.Getenv("VERIF_K")); err == nil {
		d, _ := strconv.Atoi(os.Getenv("VERIF_D"))
		ps = []dagPass{{fam, false, v, d}}
	}
	return ps
}

// deepScenario selects the scenarios explored with the larger deviation budgets: the representative
// labelling of every graph shape; for three and more tasks at most one task with a non-nil result,
// and bounded-parallel modes only with all-nil results.
func deepScenario(sc *dagh.Scenario, thorough bool) bool {
	if !sc.Canon {
		return false
	}
	if (sc.Cancel || len(sc.Shared) > 0) && sc.N > 2 && !thorough {
		return false
	}
	if sc.N <= 2 {
		return true
	}
	if sc.N >= 4 && !thorough {
		return false
	}
	bad, retry := 0, false
	for _, s := range sc.Scripts {
		if len(s) > 0 && s[len(s)-1] != "ok" {
			bad++
		}
		if len(s) > 1 {
			retry = true
		}
	}
	if bad > 1 {
		return false
	}
	if sc.Mode == "max2" && sc.N == 3 && !thorough {
		return false // two slots for three tasks: the passes with one deviation cover it in the quick tier
	}
	if (bad == 1 || retry) && (sc.Mode == "max1" || sc.Mode == "max2") {
		return false
	}
	return true
}

func propMatches(id string, f dagh.Finding) bool {
	return f.Prop == id || f.Prop == "*"
}

func runDagCheck(c *RunCtx) {
	passes := dagPasses(c.ID, c.Tier)
	res := c.Res
	res.Bounds = map[string]any{"passes": passes}
	maxEnabled := 0
	defer func() { res.Bounds["max_enabled_threads"] = maxEnabled }()
	fams := map[string][]*dagh.Scenario{}
	type unit struct {
		pass  dagPass
		pname string
		sc    *dagh.Scenario
		por   bool // unbounded exploration (sleep sets / visited states) instead of a bounded pass
	}
	var units []unit
	for pi, pass := range passes {
		scs, ok := fams[pass.Family]
		if !ok {
			scs = dagh.Family(pass.Family, c.Tier)
			fams[pass.Family] = scs
		}
		pname := fmt.Sprintf("pass%d_%s_k%d_d%d", pi+1, pass.Family, pass.K, pass.D)
		for _, sc := range scs {
			if m := os.Getenv("VERIF_SCENARIO_MATCH"); m != "" && !strings.Contains(sc.String(), m) {
				continue // development aid: only the scenarios whose description contains the text
			}
			if pass.Canon && !deepScenario(sc, c.Tier == "thorough") {
				continue
			}
			if (sc.Light == 1 && pass.K+pass.D > 1) || (sc.Light == 2 && pass.K+pass.D > 0) {
				continue
			}
			if pass.Canon && c.Tier != "thorough" && c.ID != "C16" && sc.N <= 2 && len(sc.Shared) == 0 && !sc.Rerun && !sc.BigOutput {
				continue // covered without any bound by the visited-state exploration below (the thorough tier runs both)
			}
			units = append(units, unit{pass, pname, sc, false})
		}
	}
	// unbounded exploration with visited-state pruning of the small scenarios: every reachable state (up to commuting
	// independent operations) is visited, no deviation bound.  quick: n <= 2 where the state space is known to be
	// small; thorough: every canonical scenario with n <= 3, under a per-scenario state cap.
	scQuick := func(sc *dagh.Scenario) bool {
		if sc.N > 2 {
			return false
		}
		if sc.N == 2 && sc.Buffer && (sc.Mode == "par" || sc.Mode == "max2" || sc.Mode == "max3") {
			edge := false
			for _, c := range sc.Hist {
				if c.Op == "dep" {
					edge = true
				}
			}
			if !edge {
				return false // two independent tasks with buffered output: several 10^5 states, thorough tier only
			}
		}
		if sc.N == 2 && sc.Cancel && (sc.Mode == "par" || sc.Mode == "max2" || sc.Mode == "max3") {
			edge := false
			for _, c := range sc.Hist {
				if c.Op == "dep" {
					edge = true
				}
			}
			if !edge {
				return false // two independent tasks and a cancellation: 7*10^5 states, thorough tier only
			}
		}
		return true
	}
	if os.Getenv("VERIF_K") == "" && c.ID != "C16" {
		for _, sc := range fams[c.ID] {
			if !sc.Canon || sc.Light != 0 || sc.BigOutput || sc.History || sc.Rerun || len(sc.Shared) > 0 {
				continue
			}
			if c.Tier == "thorough" && sc.N <= 3 || scQuick(sc) {
				units = append(units, unit{dagPass{c.ID, true, 99, 0}, "visited_state_unbounded", sc, true})
			}
		}
	}
	if os.Getenv("VERIF_ONLY_UNBOUNDED") != "" {
		// development aid: only the visited-state units (to see what that mode detects on its own)
		var keep []unit
		for _, u := range units {
			if u.por {
				keep = append(keep, u)
			}
		}
		units = keep
	}
	planned := map[string]int{}
	for _, u := range units {
		planned[u.pname]++
	}
	res.Bounds["scenarios_planned_per_pass"] = planned // a pass is fully covered iff its <pass>_scenarios_completed counter equals this number
	// heaviest first, so that dynamic claiming packs well
	sort.SliceStable(units, func(i, j int) bool {
		wi := (units[i].pass.K*2+units[i].pass.D)*10 + units[i].sc.N
		wj := (units[j].pass.K*2+units[j].pass.D)*10 + units[j].sc.N
		if (units[i].pass.K == 0) != (units[j].pass.K == 0) {
			return units[i].pass.K == 0 // the sweeps without scheduling deviations are cheap and go first
		}
		return wi > wj
	})
	{
		for {
			ui := c.claim()
			if ui >= len(units) {
				break
			}
			pass, pname, sc := units[ui].pass, units[ui].pname, units[ui].sc
			if units[ui].por {
				t0 := time.Now()
				maxStates := int64(0)
				if c.Tier == "thorough" {
					maxStates = 4000000
				}
				msg, choices, policy, st, obs, terr := scScenario(c.ID, sc, c.Deadline, maxStates)
				res.count("scenarios", 1)
				res.count(pname+"_scenarios", 1)
				res.count(pname+"_executions", st.Execs)
				res.count(pname+"_states_visited", st.States)
				res.count(pname+"_executions_cut_at_a_visited_state", st.Pruned)
				res.count(pname+"_executions_run_to_the_end", st.Complete)
				res.Evaluations += st.Execs
				res.Traces += st.Complete
				res.States += st.States
				res.Transitions += st.Execs
				res.Distinct += int64(len(obs))
				if st.Capped {
					res.count(pname+"_scenarios_not_finished", 1)
					if c.Tier != "thorough" || c.expired() {
						res.Capped = true
					}
				} else {
					res.count(pname+"_scenarios_completed", 1)
				}
				if terr != "" {
					res.ToolError = fmt.Sprintf("%s on scenario %s (visited-state mode)", terr, sc)
					return
				}
				if msg != "" {
					dc := dagCase{Scenario: sc, Choices: choices, K: 99, D: policy, POR: true}
					// determinism: the same choices must give the same findings, five times
					for i := 0; i < 5; i++ {
						m2, _ := replayDag(c.ID, &dc, nil)
						if m2 != msg {
							res.ToolError = fmt.Sprintf("violation does not replay deterministically on %s (visited-state mode): %q vs %q", sc, msg, m2)
							return
						}
					}
					raw, _ := json.Marshal(dc)
					res.violate(Violation{Prop: c.ID, Msg: fmt.Sprintf("%s  [scenario: %s; unbounded visited-state exploration, rotation policy %d]", msg, sc, policy), Case: raw, Weight: 50000 + sc.N})
				}
				if os.Getenv("VERIF_DEBUG") != "" {
					fmt.Fprintf(os.Stderr, "DBG visited-state states=%d execs=%d %.1fs capped=%v %s\n", st.States, st.Execs, time.Since(t0).Seconds(), st.Capped, sc)
				}
				continue
			}
			t0u, evals0 := time.Now(), res.Evaluations
			kb, db := pass.K, pass.D
			if sc.N >= 4 && kb > 2 {
				kb = 2
			}
			res.count("scenarios", 1)
			res.count(pname+"_scenarios", 1)
			if len(sc.Hist) > sc.N {
				res.count("scenarios_with_edges_or_retries", 1)
			}
			if sc.Cancel {
				res.count("scenarios_with_cancel", 1)
			}
			outcomes := map[string]bool{}
			var cnt dagh.Counters
			found := false
			complete := true
			// iterate the schedule bound so that the first counterexample has the fewest deviations
			for k := 0; k <= kb && !found; k++ {
				if c.expired() {
					res.Capped = true
					complete = false
					break
				}
				final := k == kb
				ex := &explore.Explorer{Budget: explore.Budget{K: k, D: db}, Deadline: c.Deadline}
				ex.Run = func(ch *explore.Chooser) string {
					if ex.Stats.Execs%4096 == 4095 && c.stopped() {
						ex.MaxExecs = 1 // another worker reported a violation
					}
					fs, obs, cn, r := dagh.Execute(sc, ch, nil)
					if final {
						res.Transitions += int64(r.Steps)
						res.Traces++
						cnt.Add(&cn)
						outcomes[obs.Key()] = true
						if r.MaxEnabled > maxEnabled {
							maxEnabled = r.MaxEnabled
						}
					}
					var mine []string
					for _, f := range fs {
						if propMatches(c.ID, f) {
							if f.Known != "" {
								// an instance of a recorded finding: noted, and the exploration goes on so that it cannot mask another violation
								if _, seen := res.KnownSeen[f.Known]; !seen {
									dc := dagCase{Scenario: sc, Choices: ch.Choices(), K: k, D: db}
									raw, _ := json.Marshal(dc)
									if res.KnownSeen == nil {
										res.KnownSeen = map[string]Violation{}
									}
									res.KnownSeen[f.Known] = Violation{Prop: c.ID, Msg: fmt.Sprintf("%s  [scenario: %s; k=%d d=%d]", f.Msg, sc, k, db), Case: raw, Known: f.Known, Weight: k*1000 + len(sc.Hist)*10 + sc.N}
								}
								res.count("executions_showing_a_recorded_finding", 1)
								continue
							}
							mine = append(mine, f.Msg)
						}
					}
					return strings.Join(mine, "; ")
				}
				v := ex.Explore()
				if final {
					res.Evaluations += ex.Stats.Execs
					res.count(pname+"_executions", ex.Stats.Execs)
					res.States += ex.Stats.NewPoints
					if ex.Stats.Capped {
						res.Capped = true
						complete = false
					}
				}
				if ex.ToolError != "" {
					res.ToolError = fmt.Sprintf("%s on scenario %s", ex.ToolError, sc)
					return
				}
				if v != nil {
					found = true
					dc := dagCase{Scenario: sc, Choices: v.Choices, K: k, D: db}
					// determinism: the same choices must give the same findings, five times
					for i := 0; i < 5; i++ {
						msg, _ := replayDag(c.ID, &dc, nil)
						if msg != v.Msg {
							res.ToolError = fmt.Sprintf("violation does not replay deterministically on %s: %q vs %q", sc, v.Msg, msg)
							return
						}
					}
					var tr []string
					replayDag(c.ID, &dc, func(s string) { tr = append(tr, s) })
					if len(tr) > 120 {
						tr = append([]string{fmt.Sprintf("... %d earlier steps omitted ...", len(tr)-120)}, tr[len(tr)-120:]...)
					}
					dc.Trace = tr
					for len(dc.Choices) > 0 && dc.Choices[len(dc.Choices)-1] == 0 {
						dc.Choices = dc.Choices[:len(dc.Choices)-1]
					}
					raw, _ := json.Marshal(dc)
					res.violate(Violation{Prop: c.ID, Msg: fmt.Sprintf("%s  [scenario: %s; k=%d d=%d]", v.Msg, sc, k, db), Case: raw, Weight: k*1000 + len(sc.Hist)*10 + sc.N, Known: dagKnown(c.ID, sc, v.Msg)})
				}
			}
			if os.Getenv("VERIF_DEBUG") != "" {
				fmt.Fprintf(os.Stderr, "DBG %s execs=%d secs=%.2f %s\n", pname, res.Evaluations-evals0, time.Since(t0u).Seconds(), sc)
			}
			if complete {
				res.count(pname+"_scenarios_completed", 1)
			}
			res.Distinct += int64(len(outcomes))
			if len(outcomes) > 1 {
				res.Nontrivial++
			}
			res.count("enters", cnt.Enters)
			res.count("dependency_checks_at_enter", cnt.DepChecks)
			res.count("enters_overlapping_another_task", cnt.Overlaps)
			res.count("quiescent_states_checked", cnt.Quiescent)
			res.count("quiescent_states_at_capacity", cnt.ReadyWhileRun)
			res.count("executions_observing_cancellation", cnt.CancelObserved)
			res.count("retry_enters", cnt.RetryEnters)
			res.count("buffer_flushes", cnt.Flushes)
			res.count("shared_graph_enters", cnt.SharedEnters)
			res.count("executions_ending_with_a_leaked_library_goroutine_after_run_returned", cnt.Leaks)
			res.count("depth_first_sort_results_judged", cnt.Sorts)
			res.count("quiescent_states_checked_for_the_second_graph", cnt.Quiescent2)
			if len(res.Samples) < 3 {
				res.sample(map[string]any{"scenario": sc.String(), "pass": pname, "executions": res.Counters[pname+"_executions"], "distinct_outcomes": len(outcomes)})
			}
			if len(res.Violations) >= 3 {
				return
			}
		}
	}
}

// dagKnown returns the signature of a known finding matched by this violation ("" if none).
func dagKnown(id string, sc *dagh.Scenario, msg string) string {
	return ""
}

func replayDag(id string, dc *dagCase, trace func(string)) (string, error) {
	if dc.POR {
		ch := &explore.SCChooser{Prefix: dc.Choices, Policy: dc.D, ReadOnly: true}
		fs, _, _, _ := dagh.ExecutePOR(dc.Scenario, ch, trace)
		if ch.Diverged != "" {
			return "", fmt.Errorf("replay diverged: %s", ch.Diverged)
		}
		var mine []string
		for _, f := range fs {
			if propMatches(id, f) {
				mine = append(mine, f.Msg)
			}
		}
		return strings.Join(mine, "; "), nil
	}
	ch := &explore.Chooser{Prefix: dc.Choices}
	fs, _, _, _ := dagh.Execute(dc.Scenario, ch, trace)
	if ch.Diverged != "" {
		return "", fmt.Errorf("replay diverged: %s", ch.Diverged)
	}
	var mine []string
	for _, f := range fs {
		if propMatches(id, f) {
			mine = append(mine, f.Msg)
		}
	}
	return strings.Join(mine, "; "), nil
}

func init() {
	for _, id := range []string{"C13", "C14", "C15", "C16"} {
		id := id
		register(&Check{
			ID:        id,
			QuickSecs: 1200, // safety net only: the quick tier is sized to finish in 2-4 minutes on 16 idle cores
			ThoroSecs: 3600,
			Rule: "stateless model checking of the real dag.Graph.Run (instrumented at build time) under a cooperative scheduler: " +
				"every scenario of the family (labelled DAGs x result scripts x modes x cancellation/buffering/shared tasks/construction histories) is executed for every schedule with <= k scheduling deviations, " +
				"<= d map-iteration-order deviations and all task completion orders; evaluations = complete executions; states = choice points visited beyond replayed prefixes; " +
				"distinct_nontrivial = number of distinct observation vectors (status, started set, attempts, error shape, peak concurrency, enter/exit order) summed over scenarios",
			Assume: []string{
				"sequentially consistent execution; visibility clauses are decided on the modelled happens-before relation (go, channel, mutex edges)",
				"the eight local source rewrites of cmd/vinstr preserve behaviour (validated by running the repository's tests on the instrumented tree in passthrough mode)",
				"graphs with <= 4 tasks; schedules within the stated deviation bounds",
			},
			Run: runDagCheck,
			Replay: func(raw json.RawMessage) (string, error) {
				var dc dagCase
				if err := json.Unmarshal(raw, &dc); err != nil {
					return "", err
				}
				var tr []string
				msg, err := replayDag(id, &dc, func(s string) { tr = append(tr, s) })
				fmt.Println("scenario:", dc.Scenario)
				fmt.Println("choices:", dc.Choices)
				for _, l := range tr {
					fmt.Println(l)
				}
				return msg, err
			},
			GateCounts: []string{"scenarios", "enters"},
		})
	}
}
