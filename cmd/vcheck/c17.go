package main

import (
	"encoding/json"
	"fmt"
	"os"
	"sort"
	"strings"

	"verif/harness/ph"
)

func defsC17() []*ph.Def {
	var out []*ph.Def
	base := func() *ph.Def {
		return &ph.Def{Unknown: 0, Help: "help", HelpAliases: []string{"?"}, Root: ph.CmdDef{Name: "prog",
			Opts: []ph.OptDef{
				{Name: "verbose", Kind: ph.Bool, Aliases: []string{"v"}},
				{Name: "version", Kind: ph.Bool},
				{Name: "format", Kind: ph.Str, Aliases: []string{"f"}, Suggested: []string{"json", "yaml", "yml", "text"}},
				{Name: "format-version", Kind: ph.Str, Valid: []string{"v1", "v2", "x9"}},
				{Name: "level", Kind: ph.Int, Aliases: []string{"l"}, SuggestFn: true},
				{Name: "inc", Kind: ph.Incr},
				{Name: "define", Kind: ph.Map, Min: 1, Max: 2, Suggested: []string{"os=", "arch=", "opt=1"}},
				{Name: "profile", Kind: ph.Str, Aliases: []string{"env"}, Suggested: []string{"dev", "prod"}}, // an alias that is no beginning of the name
			},
			ArgCompl: []string{"alpha", "build-all", "zeta", "env=dev", "env=prod", "/etc/hosts"}, // suggestions may contain `=` or be absolute paths
			Cmds: []*ph.CmdDef{
				{Name: "build", Desc: "b", Opts: []ph.OptDef{{Name: "target", Kind: ph.Str, Suggested: []string{"linux", "darwin"}}, {Name: "verify", Kind: ph.Bool}},
					Cmds: []*ph.CmdDef{{Name: "fast", Opts: []ph.OptDef{{Name: "jobs", Kind: ph.Int}}}, {Name: "full"}}, ArgCompl: []string{"file1", "file2"}},
				{Name: "bundle", ArgFn: true},
				{Name: "wrap", Unset: true, Unknown: 3, Opts: []ph.OptDef{{Name: "wopt", Kind: ph.Bool}}, Cmds: []*ph.CmdDef{{Name: "shell", Opts: []ph.OptDef{{Name: "container", Kind: ph.Str}}}}}, // below the wrapper only what the wrapper has is inherited
				{Name: "log", Cmds: []*ph.CmdDef{{Name: "grep"}, {Name: "tail"}}},
				{Name: "logs"}, {Name: "login", ArgCompl: []string{"user=root"}}, // a command name that is the beginning of its siblings' names
			},
		}}
	}
	out = append(out, base())
	// without help command
	d := base()
	d.Help, d.HelpAliases = "", nil
	out = append(out, d)
	// lonesome dash option and single letter names
	out = append(out, &ph.Def{Help: "help", Root: ph.CmdDef{Name: "prog",
		Opts:  []ph.OptDef{{Name: "-", Kind: ph.Bool}, {Name: "a", Kind: ph.Bool}, {Name: "ab", Kind: ph.Str, Suggested: []string{"x"}}, {Name: "abc", Kind: ph.StrOpt, Aliases: []string{"b"}}},
		Cmds:  []*ph.CmdDef{{Name: "a"}, {Name: "ab", Cmds: []*ph.CmdDef{{Name: "abc"}}}},
		ArgFn: true, ArgCompl: []string{"a", "abd"},
	}})
	// require-order set on a command: behind its first argument nothing but arguments can stand
	d = base()
	d.Root.Cmds[0].RequireOrder = true
	out = append(out, d)
	// other modes (completion always uses normal interpretation of the line)
	for _, mode := range []int{1, 2} {
		d := base()
		d.Mode = mode
		out = append(out, d)
	}
	return out
}

// c17Level describes the command level the earlier words reach.
type c17Level struct {
	keys     map[string]*ph.OptDef // name/alias -> option
	cmds     []string
	argCompl []string
	argFn    string // non-empty: dynamic function of that command returns dyn-<name>-1/2
	isHelp   bool
}

func c17LevelOf(def *ph.Def, path string) *c17Level {
	lv := &c17Level{keys: map[string]*ph.OptDef{}}
	helpName := def.Help
	isHelp := helpName != "" && (path == helpName || strings.HasSuffix(path, "/"+helpName))
	if isHelp {
		parent := strings.TrimSuffix(strings.TrimSuffix(path, helpName), "/")
		pl := ph.FindLevel(def, parent)
		lv.isHelp = true
		for _, k := range pl.Cmds {
			lv.argCompl = append(lv.argCompl, k.Name)
		}
		return lv
	}
	ls := c18Level(def, path)
	for _, o := range ls.opts {
		lv.keys[o.Name] = o
		for _, a := range o.Aliases {
			lv.keys[a] = o
		}
	}
	cd := ph.FindLevel(def, path)
	for _, k := range cd.Cmds {
		lv.cmds = append(lv.cmds, k.Name)
	}
	if helpName != "" {
		lv.cmds = append(lv.cmds, helpName)
	}
	lv.argCompl = cd.ArgCompl
	if cd.ArgFn {
		lv.argFn = cd.Name
	}
	if cd.ArgFnSlow {
		lv.argCompl = append(append([]string{}, lv.argCompl...), "slow-"+cd.Name+"-1") // whatever its dynamic functions return, however long they take
	}
	return lv
}

// candName strips the decoration of an offered option: dashes and everything from `=` on.
func candName(c string) string {
	c = strings.TrimSuffix(c, " ")
	if c == "-" {
		return "-"
	}
	c = strings.TrimPrefix(strings.TrimPrefix(c, "-"), "-")
	if i := strings.Index(c, "="); i >= 0 {
		c = c[:i]
	}
	return c
}

func setOf(ss []string) []string {
	m := map[string]bool{}
	for _, s := range ss {
		m[s] = true
	}
	out := make([]string, 0, len(m))
	for s := range m {
		out = append(out, s)
	}
	sort.Strings(out)
	return out
}

type c17Case struct {
	Def     *ph.Def  `json:"def"`
	Earlier []string `json:"earlier"`
	Last    string   `json:"last"`
	Zsh     bool     `json:"zsh"`
	Conv    int      `json:"convention"` // 0: Parse([]), 1: Parse([cmd, word, prev]), 2: bash's stray trailing space with a non-empty word, 3: words separated by two blanks, 4: by a tab
}

func (cc *c17Case) String() string {
	return fmt.Sprintf("earlier=%q last=%q zsh=%v convention=%d", cc.Earlier, cc.Last, cc.Zsh, cc.Conv)
}

// c17Run performs the completion and returns the offered lines.
func c17Run(cc *c17Case) (lines []string, p *ph.Prog, o *ph.Outcome) {
	words := append(append([]string{"prog"}, cc.Earlier...), cc.Last)
	line := strings.Join(words, " ")
	var args []string
	prev := "prog"
	if len(cc.Earlier) > 0 {
		prev = cc.Earlier[len(cc.Earlier)-1]
	}
	switch cc.Conv {
	case 0:
		args = []string{}
	case 1:
		args = []string{"prog", cc.Last, prev}
	case 2:
		line += " " // bash sometimes hands over a stray trailing space although the word is not finished
		args = []string{"prog", cc.Last, prev}
	case 3: // the words are separated by two blanks
		line = strings.Join(words, "  ")
		args = []string{}
	default: // ... or by a tab
		line = strings.Join(words, "\t")
		args = []string{}
	}
	os.Setenv("COMP_LINE", line)
	if cc.Zsh {
		os.Setenv("ZSHELL", "true")
	}
	defer os.Unsetenv("COMP_LINE")
	defer os.Unsetenv("ZSHELL")
	p = ph.Build(cc.Def, nil)
	o = p.Run(args, false)
	p.Close()
	txt := strings.TrimSuffix(p.Comp.String(), "\n")
	if txt != "" {
		lines = strings.Split(txt, "\n")
	}
	return
}

type c17Info struct {
	inDomain bool
	kind     string
}

func c17Judge(cc *c17Case, verbose bool) ([]string, c17Info) {
	var info c17Info
	// the level reached by the earlier words (completion interprets the line in normal mode)
	d0 := *cc.Def
	d0.Mode = 0
	probe := append(append([]string{}, cc.Earlier...), "zz-placeholder")
	ex := ph.SpecParse(&d0, nil, probe)
	exE := ph.SpecParse(&d0, nil, cc.Earlier)
	lines, p, o := c17Run(cc)
	if verbose {
		fmt.Printf("%s\nlevel reached: %q  (reference: err=%v unspecified=%v)\noffered: %q\nexits=%v writer=%q\n", cc, exE.Level, exE.Err, exE.Unspec, lines, p.Exits, p.W.String())
	}
	var out []string
	if o.Panic != "" || o.Hang {
		return []string{"completion panics or hangs: " + firstLine(o.Panic)}, info
	}
	if len(p.Calls) > 0 {
		out = append(out, "completion ran a command function")
	}
	if len(p.Exits) == 0 {
		out = append(out, "completion did not leave through the exit path")
	}
	// a fault at one point: the stream the candidates go to fails - completing still leaves through the exit path
	if cc.Conv == 0 && !cc.Zsh && !cc.Def.CompWriterFails {
		d2 := *cc.Def
		d2.CompWriterFails = true
		cc2 := *cc
		cc2.Def = &d2
		_, p2, o2 := c17Run(&cc2)
		if o2.Panic != "" || o2.Hang {
			out = append(out, "completion with a failing output stream panics or hangs: "+firstLine(o2.Panic))
		} else if len(p2.Exits) == 0 {
			out = append(out, fmt.Sprintf("completion with a failing output stream did not leave through the exit path (Parse returned error %q)", o2.ParseErr))
		}
	}
	// zone U12: earlier words do not parse, last word in the value position of an option, after `--`
	if ex.StopIdx == len(probe)-1 {
		ex.StopIdx = -1 // the placeholder itself is the first argument: the word being completed stands where an option or command still can
	}
	if !exE.Err && len(exE.Unspec) == 0 && len(ex.Unspec) == 0 && ex.TermIdx < 0 && ex.StopIdx >= 0 && len(exE.Unknowns) == 0 {
		// behind the require-order stop point only arguments can stand.  What is offered there is not specified as a
		// set, but the universal clause still holds: an offered option or command is accepted by the parser at that position.
		info.kind = "behind_the_require_order_stop"
		for _, l := range lines {
			tok := strings.TrimSuffix(l, " ")
			if tok == "" {
				continue
			}
			argv := append(append([]string{}, cc.Earlier...), tok)
			if strings.HasPrefix(tok, "-") {
				name := candName(tok)
				if strings.HasSuffix(tok, "=") {
					argv[len(argv)-1] = tok + "1"
				}
				p2 := ph.Build(cc.Def, nil)
				o2 := p2.Run(argv, false)
				p2.Close()
				called := false
				for path, c := range o2.Called {
					if c && strings.HasSuffix(path, "/"+name) {
						called = true
					}
				}
				if !called && !o2.HasErr {
					out = append(out, fmt.Sprintf("completion: option %q is offered behind the require-order stop point after %q, where the parser does not take it as an option (remaining %q)", tok, cc.Earlier, o2.Remaining))
				}
				continue
			}
			isCmd := false
			var walk func(c *ph.CmdDef)
			walk = func(c *ph.CmdDef) {
				for _, k := range c.Cmds {
					if k.Name == tok {
						isCmd = true
					}
					walk(k)
				}
			}
			walk(&cc.Def.Root)
			if !isCmd {
				continue
			}
			p2 := ph.Build(cc.Def, nil)
			o2 := p2.Run(argv, true)
			p2.Close()
			if !o2.HasErr && len(o2.Calls) == 1 && !strings.HasSuffix("/"+o2.Calls[0].Path, "/"+tok) && contains(o2.Remaining, tok) {
				out = append(out, fmt.Sprintf("completion: command %q is offered behind the require-order stop point after %q, where the parser takes it as an argument (function %q ran with %q)", tok, cc.Earlier, "/"+o2.Calls[0].Path, o2.Remaining))
			}
		}
		if len(lines) > 0 {
			info.inDomain = true
		}
		return out, info
	}
	if exE.Err || len(exE.Unspec) > 0 || len(ex.Unspec) > 0 || ex.TermIdx >= 0 || ex.StopIdx >= 0 || len(exE.Unknowns) > 0 {
		return out, info
	}
	if ex.Consumed[len(probe)-1] {
		return out, info // the last word is the value of the previous option
	}
	info.inDomain = true
	lv := c17LevelOf(cc.Def, exE.Level)
	last := cc.Last
	// sortedness
	if !sort.StringsAreSorted(lines) {
		out = append(out, fmt.Sprintf("completion: candidates are not sorted: %q", lines))
	}
	switch {
	case strings.HasPrefix(last, "-") && !strings.Contains(last, "="):
		info.kind = "option_names"
		typed := strings.TrimPrefix(strings.TrimPrefix(last, "-"), "-")
		var want []string
		for k := range lv.keys {
			if k == "-" {
				if last == "-" {
					want = append(want, k)
				}
				continue
			}
			if strings.HasPrefix(k, typed) {
				want = append(want, k)
			}
		}
		var got []string
		for _, l := range lines {
			got = append(got, candName(l))
		}
		if !eqStr(setOf(got), setOf(want)) {
			out = append(out, fmt.Sprintf("completion: for %q the option names offered are %q, want exactly the declared names and aliases starting with %q: %q", last, setOf(got), typed, setOf(want)))
		}
		// every offered option is accepted by the parser at that position: the candidate exactly as offered
		// (completed with a value where it needs one) is given to the real parser in the program's own mode
		for _, l := range lines {
			name := candName(l)
			od, ok := lv.keys[name]
			if !ok {
				continue
			}
			tok := strings.TrimSuffix(l, " ")
			if i := strings.Index(tok, "="); i >= 0 {
				tok = tok[:i]
			}
			switch {
			case od.Kind == ph.Int || od.Kind == ph.IntOpt || od.Kind == ph.IntS || od.Kind == ph.Flt || od.Kind == ph.FltOpt || od.Kind == ph.FltS:
				tok += "=1"
			case od.Kind == ph.Map:
				tok += "=k=v"
			case len(od.Valid) > 0:
				tok += "=" + od.Valid[0]
			case !od.Kind.IsFlag():
				tok += "=x"
			}
			p2 := ph.Build(cc.Def, nil)
			o2 := p2.Run(append(append([]string{}, cc.Earlier...), tok), false)
			p2.Close()
			if o2.HasErr {
				out = append(out, fmt.Sprintf("completion: offered option %q is not accepted by the parser after %q: %s", tok, cc.Earlier, o2.ParseErr))
				continue
			}
			called := name == cc.Def.Help || contains(cc.Def.HelpAliases, name)
			for path, c := range o2.Called {
				if c && strings.HasSuffix(path, "/"+od.Name) {
					called = true
				}
			}
			if !called {
				out = append(out, fmt.Sprintf("completion: offered option %q, given to the parser after %q, does not set option %q", tok, cc.Earlier, od.Name))
			}
		}
	case strings.HasPrefix(last, "--") && strings.Contains(last, "="):
		name := last[2:strings.Index(last, "=")]
		typedVal := last[strings.Index(last, "=")+1:]
		od, ok := lv.keys[name]
		if !ok {
			info.inDomain = false
			return out, info
		}
		info.kind = "option_values"
		var vals []string
		vals = append(vals, od.Suggested...)
		vals = append(vals, od.Valid...)
		if od.SuggestFn {
			vals = append(vals, "fn-"+od.Name+"-x", "fn-"+od.Name+"-y")
		}
		var want []string
		for _, v := range vals {
			if strings.HasPrefix(v, typedVal) {
				if cc.Zsh {
					want = append(want, "--"+name+"="+v)
				} else {
					want = append(want, v)
				}
			}
		}
		var got []string
		for _, l := range lines {
			got = append(got, strings.TrimSuffix(l, " "))
		}
		// a single candidate ending in `=` is followed by hint lines that start with it: not candidates of their own
		if len(got) > 1 && strings.HasSuffix(got[0], "=") {
			hints := true
			for _, g := range got[1:] {
				if !strings.HasPrefix(g, got[0]) {
					hints = false
				}
			}
			if hints && len(want) == 1 {
				got = got[:1]
			}
		}
		if !eqStr(setOf(got), setOf(want)) {
			out = append(out, fmt.Sprintf("completion: after %q the values offered are %q, want exactly the suggested/valid values of option %q with prefix %q: %q", last, setOf(got), name, typedVal, setOf(want)))
		}
	case !strings.HasPrefix(last, "-"):
		info.kind = "commands_and_arguments"
		var want []string
		for _, c := range lv.cmds {
			if strings.HasPrefix(c, last) {
				want = append(want, c)
			}
		}
		for _, a := range lv.argCompl {
			if strings.HasPrefix(a, last) {
				want = append(want, a)
			}
		}
		if lv.argFn != "" {
			want = append(want, "dyn-"+lv.argFn+"-1", "dyn-"+lv.argFn+"-2")
		}
		var got []string
		for _, l := range lines {
			got = append(got, strings.TrimSuffix(l, " "))
		}
		sort.Strings(want)
		sort.Strings(got)
		if !eqStr(got, want) {
			out = append(out, fmt.Sprintf("completion: for %q at level %q the candidates are %q, want exactly the sub-commands and argument suggestions starting with it plus the dynamic ones: %q", last, "/"+exE.Level, got, want))
		}
		// every offered command is accepted by the parser at that position
		for _, c := range lv.cmds {
			if !strings.HasPrefix(c, last) {
				continue
			}
			ex2 := ph.SpecParse(&d0, nil, append(append([]string{}, cc.Earlier...), c))
			p2 := ph.Build(&d0, nil)
			o2 := p2.Run(append(append([]string{}, cc.Earlier...), c), false)
			p2.Close()
			if o2.HasErr || len(o2.Remaining) != len(ex2.Remaining) {
				out = append(out, fmt.Sprintf("completion: offered command %q is not selected by the parser after %q (err=%q remaining=%q)", c, cc.Earlier, o2.ParseErr, o2.Remaining))
			}
		}
	default:
		info.inDomain = false
	}
	return out, info
}

func c17LastWords(def *ph.Def, lv *c17Level) []string {
	seen := map[string]bool{}
	var out []string
	add := func(s string) {
		if !seen[s] {
			seen[s] = true
			out = append(out, s)
		}
	}
	add("")
	add("-")
	add("--")
	add("zzz")
	add("--zzz")
	for k, od := range lv.keys {
		rs := []rune(k)
		for i := 1; i <= len(rs); i++ {
			add("--" + string(rs[:i]))
		}
		add("-" + string(rs[:1]))
		add("--" + k + "=")
		for _, v := range append(append([]string{}, od.Suggested...), od.Valid...) {
			add("--" + k + "=" + v[:1])
			add("--" + k + "=" + v)
		}
		if od.SuggestFn {
			add("--" + k + "=fn")
			add("--" + k + "=q")
		}
		add("--" + k + "=zz")
	}
	for _, c := range append(append([]string{}, lv.cmds...), lv.argCompl...) {
		rs := []rune(c)
		for i := 1; i <= len(rs); i++ {
			add(string(rs[:i]))
		}
		add(c + "x")
	}
	sort.Strings(out)
	return out
}

func init() {
	register(&Check{
		ID:        "C17",
		QuickSecs: 900, ThoroSecs: 3000,
		Rule: "input-space exploration of the completion path, in-process (exit function and completion writer replaced through an overlay-only file): 6 trees (aliases, suggested and valid values, value completion function, static and dynamic argument completions, UnsetOptions wrapper, nested commands, with and without help command, lonesome dash, require-order on a command, all three modes) x every sequence of earlier words of length <= Le over long options with values, command names and a positional " +
			"x last word in {every prefix of every option name/alias and command/suggestion of the level reached, `-`, `--`, empty, `--k=`, `--k=<prefix>`, non-matching} x bash/zsh x three argument conventions of Parse, and (bash) the same line with its words separated by two blanks or by a tab; offered option names / commands / values compared as sets with the set computed from the definition and the reference model's level, " +
			"sortedness, parser acceptance of every offered option and command, no CommandFn, exit path (also when the stream the candidates are written to fails); three cases with a dynamic completion function that takes 1.5 s to answer; distinct_nontrivial = distinct in-domain (definition, COMP_LINE, target, convention) cases",
		Assume: []string{"zone U12 (last word in the value position of the previous option, after `--`, after words that do not parse) is executed but not compared", "behind a require-order stop point the candidate set is not compared; only the acceptance of every offered option and command is"},
		Run: func(c *RunCtx) {
			res := c.Res
			le := 2
			if c.Tier == "thorough" {
				le = 3
			}
			defs := defsC17()
			earlyAlpha := []string{"--verbose", "--format=json", "--format", "json", "build", "fast", "bundle", "wrap", "log", "help", "pos", "--level=3", "a", "ab", "--a", "shell"}
			res.Bounds = map[string]any{"Le": le, "definitions": len(defs), "earlier_word_alphabet": earlyAlpha}
			units := len(defs) * (len(earlyAlpha) + 1)
			for {
				u := c.claim()
				if u == units {
					// a dynamic completion function that answers slowly still contributes (four cases, 1.5 s each)
					slow := &ph.Def{Help: "help", Root: ph.CmdDef{Name: "prog", Opts: []ph.OptDef{{Name: "verbose", Kind: ph.Bool}},
						ArgCompl: []string{"local-a"}, ArgFn: true, ArgFnSlow: true, Cmds: []*ph.CmdDef{{Name: "run", ArgFnSlow: true}}}}
					for _, cc := range []*c17Case{{Def: slow, Last: ""}, {Def: slow, Last: "s", Zsh: true}, {Def: slow, Earlier: []string{"run"}, Last: ""}} {
						res.Evaluations++
						res.Traces++
						res.count("cases_with_a_slow_completion_function", 1)
						if msgs, _ := c17Judge(cc, false); len(msgs) > 0 {
							raw, _ := json.Marshal(cc)
							res.violate(Violation{Prop: "C17", Msg: fmt.Sprintf("%s  [slow completion function; %s]", msgs[0], cc), Case: raw, Weight: 5})
						}
					}
					continue
				}
				if u > units || len(res.Violations) >= 3 {
					break
				}
				if c.expired() {
					res.Capped = true
					break
				}
				def := defs[u/(len(earlyAlpha)+1)]
				first := u%(len(earlyAlpha)+1) - 1
				d0 := *def
				d0.Mode = 0
				visit := func(earlier []string) {
					res.States++
					exE := ph.SpecParse(&d0, nil, earlier)
					if exE.Err || len(exE.Unspec) > 0 {
						// earlier words do not parse: still exercise the path once
						cc := &c17Case{Def: def, Earlier: append([]string{}, earlier...), Last: ""}
						res.Evaluations++
						res.Traces++
						if msgs, _ := c17Judge(cc, false); len(msgs) > 0 {
							raw, _ := json.Marshal(cc)
							res.violate(Violation{Prop: "C17", Msg: fmt.Sprintf("%s  [%s %s]", msgs[0], def.ConfigString(), cc), Case: raw, Weight: len(earlier)})
						}
						return
					}
					lv := c17LevelOf(def, exE.Level)
					for _, last := range c17LastWords(def, lv) {
						for _, zsh := range []bool{false, true} {
							for conv := 0; conv < 5; conv++ {
								if conv == 2 && last == "" {
									continue
								}
								if conv >= 3 && (len(earlier) == 0 || zsh || last == "") {
									continue // other separators: only where there is an earlier word to separate
								}
								cc := &c17Case{Def: def, Earlier: append([]string{}, earlier...), Last: last, Zsh: zsh, Conv: conv}
								res.Evaluations++
								res.Traces++
								res.Transitions += int64(len(earlier) + 1)
								msgs, info := c17Judge(cc, false)
								if info.inDomain {
									res.count("in_domain_cases", 1)
									res.count("in_domain_"+info.kind, 1)
								}
								if len(msgs) > 0 {
									raw, _ := json.Marshal(cc)
									res.violate(Violation{Prop: "C17", Msg: fmt.Sprintf("%s  [%s %s]", msgs[0], def.ConfigString(), cc), Case: raw, Weight: len(earlier)*10 + len(last)})
								}
								if res.Evaluations%40000 == 1 {
									res.sample(map[string]any{"config": def.ConfigString(), "earlier": cc.Earlier, "last": last, "zsh": zsh, "convention": conv})
								}
							}
						}
					}
				}
				if first < 0 {
					visit(nil)
					continue
				}
				earlier := []string{earlyAlpha[first]}
				var rec func()
				rec = func() {
					visit(earlier)
					if len(earlier) == le || len(res.Violations) >= 3 || c.stopped() {
						return
					}
					for _, t := range earlyAlpha {
						earlier = append(earlier, t)
						rec()
						earlier = earlier[:len(earlier)-1]
					}
				}
				rec()
			}
			res.Distinct = res.Counters["in_domain_cases"]
		},
		Replay: func(raw json.RawMessage) (string, error) {
			var cc c17Case
			if err := json.Unmarshal(raw, &cc); err != nil {
				return "", err
			}
			msgs, _ := c17Judge(&cc, true)
			return strings.Join(msgs, "; "), nil
		},
		GateCounts: []string{"in_domain_cases", "in_domain_option_names", "in_domain_option_values", "in_domain_commands_and_arguments"},
	})
}
