package main

import (
	"fmt"

	"verif/harness/ph"
)

// value texts: all byte strings of length <= maxLen over the characters the splitter regexp,
// the `=` trim and the dash test can distinguish, plus numeric boundary and malformed numerals.
var c01Chars = []string{"a", "-", "=", " ", "\n", "1", ".", "e", "+", "_", "x", "é", "\xff"}

var c01Numerals = []string{
	"0", "-0", "+5", "-5", "007", " 5", "5 ", "5\n", "1_000", "0x10", "0b1", "0o7", "1e3", "1E3", "1e+3", "1e-3", ".5", "5.", "1.5", "-1.5", "+1.5",
	"9223372036854775807", "9223372036854775808", "-9223372036854775808", "-9223372036854775809", "99999999999999999999",
	"1e308", "1.8e308", "1e999", "-1e999", "1e-400", "4.9e-324", "NaN", "nan", "Inf", "-Inf", "+Inf", "infinity", "0x1p-2", "1__0", "_1", "1_",
	"٣", "１２", "1,5", "1 000", "0.1e", "e5", "--5", "-", "--", "c", "--str", "--x=y", "=", "==", "a=b=c", "a b", " ", "\t", "\n", "multi\nline\nvalue", "trailing\n", "\nleading",
	"Key=Value", "PATH=/usr/BIN", "-DFOO=Bar", "K", "Kk=Vv", "ÄB=c", "UPPER", "MiXeD case", // SetMapKeysToLower is on: it concerns map keys only
}

func c01Values(maxLen int) []string {
	var out []string
	var rec func(cur string, n int)
	rec = func(cur string, n int) {
		if n > 0 {
			out = append(out, cur)
		}
		if n == maxLen {
			return
		}
		for _, c := range c01Chars {
			rec(cur+c, n+1)
		}
	}
	rec("", 0)
	out = append(out, c01Numerals...)
	return out
}

func defC01(mode int) *ph.Def {
	return &ph.Def{Mode: mode, Unknown: 2, Help: "help", MapLower: true, Root: ph.CmdDef{Name: "prog",
		Opts: []ph.OptDef{
			{Name: "str", Kind: ph.Str, DefS: "D"},
			{Name: "int", Kind: ph.Int, DefI: 7, Var: true},
			{Name: "flt", Kind: ph.Flt, DefF: 2.5},
			{Name: "ostr", Kind: ph.StrOpt, DefS: "OD", Var: true},
			{Name: "oint", Kind: ph.IntOpt, DefI: 70},
			{Name: "oflt", Kind: ph.FltOpt, DefF: 25.5, Var: true},
			{Name: "b", Kind: ph.Bool},
			{Name: "nb", Kind: ph.Bool, DefB: true},
			{Name: "inc", Kind: ph.Incr, DefI: 2, Var: true}, // IncrementVar: the default is written into the caller's variable
		},
		Cmds: []*ph.CmdDef{{Name: "c", Opts: []ph.OptDef{{Name: "d", Kind: ph.Bool}}},
			{Name: "w", Unset: true, Unknown: 3, Opts: []ph.OptDef{{Name: "str", Kind: ph.Str, DefS: "WD"}, {Name: "int", Kind: ph.Int, DefI: -1}, {Name: "flt", Kind: ph.Flt, DefF: -1.5},
				{Name: "ostr", Kind: ph.StrOpt, DefS: "WOD"}, {Name: "oint", Kind: ph.IntOpt, DefI: -70}, {Name: "oflt", Kind: ph.FltOpt, DefF: -25.5}}}},
	}}
}

// defC01flags: flags whose one-letter names are multibyte and share their first byte (a byte-wise split of a bundle makes
// them ambiguous), and an increment option bound to an environment variable that is set (GetEnv does not apply to
// increment options: the option still reads default plus occurrences).
func defC01flags(mode int) *ph.Def {
	return &ph.Def{Mode: mode, Unknown: 2, Root: ph.CmdDef{Name: "prog",
		Opts: []ph.OptDef{
			{Name: "ä", Kind: ph.Bool},
			{Name: "ö", Kind: ph.Incr, DefI: 1},
			{Name: "ü", Kind: ph.Bool, DefB: true},
			{Name: "einc", Kind: ph.Incr, DefI: 1, Env: "C01_EINC"},
		},
		Cmds: []*ph.CmdDef{{Name: "c"}},
	}}
}

var c01FlagsEnv = map[string]string{"C01_EINC": "5"}

var c01Opts = []string{"str", "int", "flt", "ostr", "oint", "oflt"}
var c01Abbrev = map[string]string{"str": "st", "int": "int", "flt": "fl", "ostr": "os", "oint": "oin", "oflt": "of"}

// spellings of "option name with value v"
func c01Spell(kind int, name, v string) []string {
	switch kind {
	case 0:
		return []string{"--" + name + "=" + v}
	case 1:
		return []string{"--" + name, v}
	default:
		return []string{"--" + c01Abbrev[name] + "=" + v}
	}
}

// contexts embed the option occurrence into a command line
func c01Context(ctx int, occ []string, name string) []string {
	switch ctx {
	case 0:
		return occ
	case 1:
		return append([]string{"pos"}, occ...)
	case 2:
		return append(append([]string{}, occ...), "--b")
	case 3:
		return append(append([]string{}, occ...), "pos")
	case 4:
		return append([]string{"c"}, occ...)
	case 6: // before a wrapper command that inherits nothing and declares options of its own under the same names
		return append(append([]string{}, occ...), "w")
	case 7: // behind the help option: a bad value is still an error
		return append([]string{"--help"}, occ...)
	default: // twice, the second occurrence wins
		first := []string{"--" + name + "=1"}
		return append(first, occ...)
	}
}

var c01Facets = ph.Facets{Err: true, ErrDetail: true, Remaining: true, Vals: true, Called: true, CalledAs: true}

func judgeC01(pc *parserCase, verbose bool) []string {
	msgs, _ := judgeSpec(pc, c01Facets, verbose)
	return msgs
}

func init() {
	parserJudges["C01"] = judgeC01
	register(&Check{
		ID:        "C01",
		QuickSecs: 900, ThoroSecs: 3000,
		Rule: "input-space exploration: value texts = all strings of length <= Lv over 13 characters {a - = space newline 1 . e + _ x é 0xFF} plus 74 numeric boundary / malformed numerals and special tokens (mixed-case texts with `=` under SetMapKeysToLower among them); " +
			"each x 6 scalar option kinds (string, int, float64 and their optional-value forms, half declared through *Var) x 3 spellings (--name=v, --name v, unique abbreviation) x 8 contexts (alone, after/before a positional, before a flag, inside a command, second occurrence, before a wrapper command with same-named options of its own, behind the help option) x 3 modes; " +
			"plus every argv of length <= 4 over flag / optional-value tokens, and over bundles of multibyte flag letters that share their first byte and an increment option bound to a set environment variable; values, Called, CalledAs, error and remaining compared with the reference model (strconv.Atoi / ParseFloat define validity); " +
			"distinct_nontrivial = distinct cases inside the specified territory",
		Assume: []string{"value texts longer than Lv over other characters are represented by the fixed list only", "unspecified zones (empty attached value, `-=`-style tokens) are executed but not compared"},
		Run: func(c *RunCtx) {
			lv := 4
			if c.Tier == "thorough" {
				lv = 5
			}
			vals := c01Values(lv)
			res := c.Res
			res.Bounds = map[string]any{"Lv": lv, "value_texts": len(vals), "flag_argv_L": 4}
			// part 1: value texts.  unit = (mode, option, spelling, context)
			units := 3 * len(c01Opts) * 3 * 8
			flagAlpha := []string{"--b", "--nb", "--inc", "-b", "--ostr", "--oint", "--oflt", "pos", "--in"}
			flagDefs := []*ph.Def{defC01(0), defC01(1), defC01(2)}
			flagUnits := len(flagDefs) * len(flagAlpha)
			flag2Alpha := []string{"-ä", "-ö", "-ü", "-äö", "-öö", "--ö", "--einc", "--ein", "c", "pos"}
			flag2Units := 6 * len(flag2Alpha)
			for {
				u := c.claim()
				if u >= units+flagUnits+flag2Units {
					break
				}
				if c.expired() {
					res.Capped = true
					break
				}
				if u >= units+flagUnits {
					// part 3: multibyte flags, increment option with an environment variable
					fu := u - units - flagUnits
					def := defC01flags((fu / len(flag2Alpha)) % 3)
					def.LateMode = fu/len(flag2Alpha) >= 3 // SetMode called after the command was declared: the mode is program-wide all the same
					argv := []string{flag2Alpha[fu%len(flag2Alpha)]}
					var rec func()
					rec = func() {
						res.States++
						res.Transitions++
						c01One(c, def, argv, "flags", c01FlagsEnv)
						if len(argv) == 4 || len(res.Violations) >= 3 {
							return
						}
						for _, t := range flag2Alpha {
							argv = append(argv, t)
							rec()
							argv = argv[:len(argv)-1]
						}
					}
					rec()
					continue
				}
				if u >= units {
					// part 2: flags and optional-value options without a value
					fu := u - units
					def := flagDefs[fu/len(flagAlpha)]
					first := fu % len(flagAlpha)
					argv := []string{flagAlpha[first]}
					var rec func()
					rec = func() {
						res.States++
						res.Transitions++
						c01One(c, def, argv, "flags", nil)
						if len(argv) == 4 || len(res.Violations) >= 3 {
							return
						}
						for _, t := range flagAlpha {
							argv = append(argv, t)
							rec()
							argv = argv[:len(argv)-1]
						}
					}
					rec()
					continue
				}
				mode := u % 3
				opt := c01Opts[(u/3)%len(c01Opts)]
				spell := (u / (3 * len(c01Opts))) % 3
				ctx := u / (3 * len(c01Opts) * 3)
				def := defC01(mode)
				for _, v := range vals {
					argv := c01Context(ctx, c01Spell(spell, opt, v), opt)
					res.States++
					res.Transitions += int64(len(argv))
					c01One(c, def, argv, "values", nil)
					if len(res.Violations) >= 3 || (res.States&1023 == 0 && c.stopped()) {
						break
					}
				}
			}
			res.Distinct = res.Counters["in_domain_cases"]
		},
		Replay:     replayParser,
		GateCounts: []string{"in_domain_cases", "in_domain_numeric_conversion_errors", "in_domain_values_with_newline", "in_domain_values_with_leading_dash"},
	})
}

func c01One(c *RunCtx, def *ph.Def, argv []string, part string, env map[string]string) {
	res := c.Res
	pc := &parserCase{Check: "C01", Def: def, Env: env, Argv: argv}
	res.Evaluations++
	res.Traces++
	msgs, info := judgeSpec(pc, c01Facets, false)
	if info.inDomain {
		res.count("in_domain_cases", 1)
		res.count("in_domain_cases_"+part, 1)
		if info.ex.Err && info.ex.ErrKind == "convert" {
			res.count("in_domain_numeric_conversion_errors", 1)
		}
		for _, t := range argv {
			if len(t) > 6 && containsByte(t[6:], '\n') {
				res.count("in_domain_values_with_newline", 1)
				break
			}
		}
		for _, t := range argv {
			if i := indexByte(t, '='); i > 0 && i+1 < len(t) && t[i+1] == '-' {
				res.count("in_domain_values_with_leading_dash", 1)
				break
			}
		}
	}
	if len(msgs) > 0 {
		res.violate(Violation{Prop: "C01", Msg: fmt.Sprintf("%s  [%s argv=%q]", msgs[0], def.ConfigString(), argv), Case: newCase("C01", def, env, argv, false), Weight: len(argv)*100 + len(fmt.Sprint(argv)), Known: knownSig("C01", msgs[0], pc), Test: goTest(def, env, argv, msgs[0])})
	}
	if res.Evaluations%40000 == 1 {
		res.sample(map[string]any{"config": def.ConfigString(), "argv": append([]string{}, argv...), "in_domain": info.inDomain})
	}
}

func containsByte(s string, b byte) bool { return indexByte(s, b) >= 0 }

func indexByte(s string, b byte) int {
	for i := 0; i < len(s); i++ {
		if s[i] == b {
			return i
		}
	}
	return -1
}
