package main

import (
	"fmt"
	"os"

	"verif/explore"
	"verif/harness/dagh"
)

// freeRunMain is the conformance pass: the same scenario bodies run free (real goroutines, real
// channels, passthrough shims), normally in a binary built with -race.  Never a deciding step for
// "holds"; a safety-oracle failure or a race report on the deliberately unsynchronised
// dependency -> dependent variable is a genuine violation and is reported as such.
func freeRunMain(id string, runs int, worker, workers int) int {
	fams := []string{id}
	bad := 0
	total, scen, notIn := 0, 0, 0
	type item struct {
		idx  int
		sc   *dagh.Scenario
		seen map[string]bool
	}
	var items []item
	// phase 1 (controlled): coarse outcomes seen by a bounded exploration of every scenario
	for _, fam := range fams {
		for i, sc := range dagh.Family(fam, "quick") {
			if i%workers != worker {
				continue
			}
			if sc.Cancel || sc.Buffer || len(sc.Shared) > 0 || sc.Rerun || sc.History || sc.N > 4 || !sc.Canon {
				continue
			}
			seen := map[string]bool{}
			ex := &explore.Explorer{Budget: explore.Budget{K: 1, D: 1}, MaxExecs: 400}
			ex.Run = func(ch *explore.Chooser) string {
				_, obs, _, _ := dagh.Execute(sc, ch, nil)
				seen[obs.CoarseKey()] = true
				return ""
			}
			ex.Explore()
			items = append(items, item{i, sc, seen})
		}
	}
	// phase 2 (free running, no scheduler is ever installed again in this process)
	for _, it := range items {
		scen++
		for r := 0; r < runs; r++ {
			fs, obs := dagh.FreeExecute(it.sc, int64(it.idx*1000+r))
			total++
			for _, f := range fs {
				fmt.Printf("FREE-RUN-FINDING property=%s %s [scenario: %s]\n", f.Prop, f.Msg, it.sc)
				bad++
			}
			if obs.Started != "timeout" && !it.seen[obs.Key()] {
				notIn++
				fmt.Fprintf(os.Stderr, "note: free-running outcome %q of %s was not among the first 400 executions of the bounded exploration (k<=1,d<=1)\n", obs.Key(), it.sc)
			}
		}
	}
	fmt.Printf("FREE-RUN-SUMMARY scenarios=%d runs=%d findings=%d outcomes_not_in_bounded_set=%d\n", scen, total, bad, notIn)
	if bad > 0 {
		return 1
	}
	return 0
}
