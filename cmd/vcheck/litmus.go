package main

import (
	"fmt"
	"sort"
	"strings"
	"sync"
	"time"

	"github.com/DavidGamba/go-getoptions/verifrt"
	vsync "github.com/DavidGamba/go-getoptions/verifrt/vsync"

	"verif/explore"
)

// Litmus programs validate the channel / mutex / select model of the runtime against Go itself:
// each is explored exhaustively under the scheduler (unbounded: budget 99) and run free with the
// real primitives (passthrough shims); the explored outcome set must equal the set Go's memory
// model allows (written down by hand) and must contain every outcome observed free-running.

type litmus struct {
	name   string
	want   []string
	body   func(out *[]string, mu *sync.Mutex)
	frees  int
	onlyCo bool // only meaningful under the controlled scheduler
}

func record(out *[]string, mu *sync.Mutex, s string) {
	mu.Lock()
	*out = append(*out, s)
	mu.Unlock()
}

var litmusSuite = []litmus{
	{
		name: "unbuffered rendezvous: two senders, one receiver",
		want: []string{"ab", "ba"},
		body: func(out *[]string, mu *sync.Mutex) {
			ch := verifrt.RegChan(make(chan string))
			verifrt.Go(func() { verifrt.Send(ch, "a") })
			verifrt.Go(func() { verifrt.Send(ch, "b") })
			x := verifrt.Recv(ch)
			y := verifrt.Recv(ch)
			record(out, mu, x+y)
		},
	},
	{
		name: "select with default polls an unbuffered channel: succeeds only once the sender is parked",
		want: []string{"hit", "miss"},
		body: func(out *[]string, mu *sync.Mutex) {
			ch := verifrt.RegChan(make(chan int))
			done := verifrt.RegChan(make(chan int, 1))
			verifrt.Go(func() {
				sel := verifrt.Select(true, verifrt.RecvCase(ch))
				if sel.I == 0 {
					record(out, mu, "hit")
				} else {
					record(out, mu, "miss")
					verifrt.Recv(ch) // drain so that the sender can finish
				}
				verifrt.Send(done, 1)
			})
			verifrt.Send(ch, 1)
			verifrt.Recv(done)
		},
	},
	{
		name: "buffered channel of capacity 1: second send blocks until a receive",
		want: []string{"s1 r1 s2 r2", "s1 s2* r1 r2"},
		body: func(out *[]string, mu *sync.Mutex) {
			// s2* marks that the second send was attempted (blocked) before r1; the observable order of completed
			// operations is what we record: the second send can only complete after the first receive.
			ch := verifrt.RegChan(make(chan int, 1))
			var seq []string
			var smu vsync.Mutex
			add := func(s string) { smu.Lock(); seq = append(seq, s); smu.Unlock() }
			fin := verifrt.RegChan(make(chan int))
			verifrt.Go(func() {
				verifrt.Send(ch, 1)
				add("s1")
				verifrt.Send(ch, 2)
				add("s2")
				verifrt.Send(fin, 1)
			})
			v1 := verifrt.Recv(ch)
			add(fmt.Sprintf("r%d", v1))
			v2 := verifrt.Recv(ch)
			add(fmt.Sprintf("r%d", v2))
			verifrt.Recv(fin)
			// project: s2 never precedes r1 being possible...: check the invariant instead of the exact order
			s := strings.Join(seq, " ")
			i1, i2 := strings.Index(s, "r1"), strings.Index(s, "r2")
			if i1 < 0 || i2 < 0 || i1 > i2 {
				record(out, mu, "BAD:"+s)
			} else {
				record(out, mu, "fifo")
			}
		},
	},
	{
		name: "mutex: two increments are never lost, both lock orders occur",
		want: []string{"2:ab", "2:ba"},
		body: func(out *[]string, mu *sync.Mutex) {
			var m vsync.Mutex
			n := 0
			order := ""
			done := verifrt.RegChan(make(chan int, 2))
			for _, id := range []string{"a", "b"} {
				id := id
				verifrt.Go(func() {
					m.Lock()
					v := n
					verifrt.Yield()
					n = v + 1
					order += id
					m.Unlock()
					verifrt.Send(done, 1)
				})
			}
			verifrt.Recv(done)
			verifrt.Recv(done)
			record(out, mu, fmt.Sprintf("%d:%s", n, order))
		},
	},
	{
		name: "close wakes a receiver with the zero value",
		want: []string{"0 false"},
		body: func(out *[]string, mu *sync.Mutex) {
			ch := verifrt.RegChan(make(chan int))
			verifrt.Go(func() { verifrt.Close(ch) })
			v, ok := verifrt.Recv2(ch)
			record(out, mu, fmt.Sprintf("%d %v", v, ok))
		},
	},
	{
		name: "select without default over two channels takes whichever is ready",
		want: []string{"x", "y"},
		body: func(out *[]string, mu *sync.Mutex) {
			a := verifrt.RegChan(make(chan string, 1))
			b := verifrt.RegChan(make(chan string, 1))
			verifrt.Go(func() { verifrt.Send(a, "x") })
			verifrt.Go(func() { verifrt.Send(b, "y") })
			sel := verifrt.Select(false, verifrt.RecvCase(a), verifrt.RecvCase(b))
			if sel.I == 0 {
				record(out, mu, verifrt.SelRecv(sel, a))
			} else {
				record(out, mu, verifrt.SelRecv(sel, b))
			}
		},
	},
	{
		name: "select with a send case on a full buffered channel and a closed-channel receive case",
		want: []string{"closed", "sent"},
		body: func(out *[]string, mu *sync.Mutex) {
			sem := verifrt.RegChan(make(chan int, 1))
			stop := verifrt.RegChan(make(chan struct{}))
			verifrt.Send(sem, 0) // full
			verifrt.Go(func() { verifrt.Recv(sem) })
			verifrt.Go(func() { verifrt.Close(stop) })
			sel := verifrt.Select(false, verifrt.SendCase(sem, 1), verifrt.RecvCase(stop))
			if sel.I == 0 {
				record(out, mu, "sent")
			} else {
				record(out, mu, "closed")
			}
		},
	},
	{
		name: "select over a result channel and a one-shot timer: either may come first",
		want: []string{"result", "timeout"},
		body: func(out *[]string, mu *sync.Mutex) {
			res := verifrt.RegChan(make(chan string, 1))
			verifrt.Go(func() { verifrt.Send(res, "r") })
			tm := verifrt.NewTimer(20 * time.Microsecond)
			sel := verifrt.Select(false, verifrt.RecvCase(res), verifrt.RecvCase(tm.C))
			if sel.I == 0 {
				record(out, mu, "result")
			} else {
				record(out, mu, "timeout")
			}
			tm.Stop()
		},
	},
	{
		name: "a stopped timer never fires",
		want: []string{"quiet"},
		body: func(out *[]string, mu *sync.Mutex) {
			tm := verifrt.NewTimer(time.Hour)
			tm.Stop()
			sel := verifrt.Select(true, verifrt.RecvCase(tm.C))
			if sel.I == 0 {
				record(out, mu, "fired")
			} else {
				record(out, mu, "quiet")
			}
		},
	},
}

// the third litmus records "fifo"; fix its expectation here to keep the table readable
func init() { litmusSuite[2].want = []string{"fifo"} }

func runLitmus() int {
	bad := 0
	type result struct {
		got      []string
		explored map[string]bool
		execs    int64
		ok       bool
		notes    []string
	}
	results := make([]*result, len(litmusSuite))
	// phase 1: exhaustive exploration under the scheduler
	for i, l := range litmusSuite {
		l := l
		explored := map[string]bool{}
		ex := &explore.Explorer{Budget: explore.Budget{K: 99, D: 0}, MaxExecs: 200000}
		ex.Run = func(ch *explore.Chooser) string {
			var out []string
			var mu sync.Mutex
			r := verifrt.Run(verifrt.Config{Chooser: ch, MaxSteps: 2000}, func() { l.body(&out, &mu) })
			if r.Status != verifrt.StatusOK {
				return "status " + r.Status + ": " + r.Detail
			}
			explored[strings.Join(out, ",")] = true
			return ""
		}
		v := ex.Explore()
		res := &result{explored: explored, execs: ex.Stats.Execs}
		for k := range explored {
			res.got = append(res.got, k)
		}
		sort.Strings(res.got)
		want := append([]string{}, l.want...)
		sort.Strings(want)
		res.ok = v == nil && ex.ToolError == "" && !ex.Stats.Capped && eqStr(res.got, want)
		if v != nil {
			res.notes = append(res.notes, "violation: "+v.Msg)
		}
		if ex.ToolError != "" {
			res.notes = append(res.notes, "tool error: "+ex.ToolError)
		}
		results[i] = res
	}
	// phase 2: free running with the real primitives (no scheduler is installed any more)
	for i, l := range litmusSuite {
		res := results[i]
		free := map[string]int{}
		for n := 0; n < 2000; n++ {
			var out []string
			var mu sync.Mutex
			l.body(&out, &mu)
			mu.Lock()
			free[strings.Join(out, ",")]++
			mu.Unlock()
		}
		for k := range free {
			if !res.explored[k] {
				res.ok = false
				res.notes = append(res.notes, fmt.Sprintf("real outcome %q was not produced by the model", k))
			}
		}
		verdict := "ok"
		if !res.ok {
			verdict = "MISMATCH"
			bad++
		}
		fmt.Printf("litmus %-100s %s  executions=%d explored=%v want=%v free=%v\n", l.name, verdict, res.execs, res.got, l.want, free)
		for _, n := range res.notes {
			fmt.Println("  " + n)
		}
	}
	if bad > 0 {
		return 2
	}
	return 0
}
