package main

import (
	"fmt"

	"github.com/DavidGamba/go-getoptions"
	"regexp"
	"strings"

	"verif/harness/ph"
)

// ---------------------------------------------------------------------------
// structural parser of the generated help text

type helpEntry struct {
	head string // first line without indentation
	text string // whole entry
}

type helpDoc struct {
	sections map[string][]string // header -> lines
	order    []string
}

var headerRe = regexp.MustCompile(`^[A-Z][A-Z ]*:$`)

func parseHelp(text string) *helpDoc {
	d := &helpDoc{sections: map[string][]string{}}
	cur := ""
	for _, l := range strings.Split(text, "\n") {
		if headerRe.MatchString(l) {
			cur = strings.TrimSuffix(l, ":")
			d.order = append(d.order, cur)
			d.sections[cur] = nil
			continue
		}
		d.sections[cur] = append(d.sections[cur], l)
	}
	return d
}

// entries splits a section into entries: a line indented by exactly four spaces starts an entry.
func (d *helpDoc) entries(section string) []helpEntry {
	var out []helpEntry
	for _, l := range d.sections[section] {
		if strings.HasPrefix(l, "    ") && !strings.HasPrefix(l, "     ") {
			out = append(out, helpEntry{head: strings.TrimPrefix(l, "    "), text: l})
		} else if len(out) > 0 && strings.TrimSpace(l) != "" {
			out[len(out)-1].text += "\n" + l
		}
	}
	return out
}

// aliasString renders "--name|-a|--other" as the library documents it.
func aliasString(o *ph.OptDef) string {
	var parts []string
	for _, n := range append([]string{o.Name}, o.Aliases...) {
		switch {
		case n == "-":
			parts = append(parts, n)
		case len(n) > 1:
			parts = append(parts, "--"+n)
		default:
			parts = append(parts, "-"+n)
		}
	}
	return strings.Join(parts, "|")
}

// occurrences of the alias string as a whole word (not as part of a longer alias list)
func aliasOccurrences(text, alias string) []int {
	var idx []int
	from := 0
	for {
		i := strings.Index(text[from:], alias)
		if i < 0 {
			return idx
		}
		i += from
		end := i + len(alias)
		okBefore := i == 0 || strings.ContainsRune(" [<\n", rune(text[i-1]))
		okAfter := end == len(text) || strings.ContainsRune(" ]>\n.", rune(text[end]))
		if okBefore && okAfter {
			idx = append(idx, i)
		}
		from = i + 1
	}
}

type levelSpec struct {
	path string
	opts []*ph.OptDef // options available at the level (own and inherited, help option included)
	cmds []*ph.CmdDef // sub-commands except the help command
}

func c18Level(def *ph.Def, path string) levelSpec {
	ls := levelSpec{path: path}
	lv := ph.FindLevel(def, path)
	chain := []*ph.CmdDef{&def.Root}
	cur := &def.Root
	if path != "" {
		for _, n := range strings.Split(path, "/") {
			for _, k := range cur.Cmds {
				if k.Name == n {
					cur = k
					chain = append(chain, k)
				}
			}
		}
	}
	cut := false
	for i := len(chain) - 1; i >= 0; i-- {
		for j := range chain[i].Opts {
			ls.opts = append(ls.opts, &chain[i].Opts[j])
		}
		if chain[i].Unset {
			cut = true
			break
		}
	}
	if def.Help != "" && !cut {
		ls.opts = append(ls.opts, &ph.OptDef{Name: def.Help, Kind: ph.Bool, Aliases: def.HelpAliases})
	}
	ls.cmds = lv.Cmds
	return ls
}

// c18Check applies the structural oracle to one help text.
func c18Check(def *ph.Def, path, text string) []string {
	var out []string
	doc := parseHelp(text)
	ls := c18Level(def, path)
	req := doc.entries("REQUIRED PARAMETERS")
	opt := doc.entries("OPTIONS")
	syn := strings.Join(doc.sections["SYNOPSIS"], "\n")
	find := func(es []helpEntry, alias string) []helpEntry {
		var r []helpEntry
		for _, e := range es {
			if e.head == alias || strings.HasPrefix(e.head, alias+" ") {
				r = append(r, e)
			}
		}
		return r
	}
	for _, o := range ls.opts {
		alias := aliasString(o)
		inReq, inOpt := find(req, alias), find(opt, alias)
		if len(inReq)+len(inOpt) != 1 {
			out = append(out, fmt.Sprintf("help: option %q (%s) is listed %d times in the option lists with all its aliases, want exactly once", o.Name, alias, len(inReq)+len(inOpt)))
			continue
		}
		var e helpEntry
		if o.Required {
			if len(inReq) != 1 {
				out = append(out, fmt.Sprintf("help: required option %q is not under REQUIRED PARAMETERS", o.Name))
				continue
			}
			e = inReq[0]
		} else {
			if len(inOpt) != 1 {
				out = append(out, fmt.Sprintf("help: option %q is not required but is listed under REQUIRED PARAMETERS", o.Name))
				continue
			}
			e = inOpt[0]
		}
		hasDefault := strings.Contains(e.text, "(default: ")
		if hasDefault == o.Required {
			out = append(out, fmt.Sprintf("help: option %q required=%v but its entry shows a default=%v: %q", o.Name, o.Required, hasDefault, e.text))
		}
		hasEnv := o.Env != "" && strings.Contains(e.text, "env: "+o.Env)
		if o.Env != "" && !hasEnv {
			out = append(out, fmt.Sprintf("help: option %q is bound to environment variable %s but its entry does not show it: %q", o.Name, o.Env, e.text))
		}
		if o.Env == "" && strings.Contains(e.text, "env: ") {
			out = append(out, fmt.Sprintf("help: option %q is not bound to an environment variable but its entry shows one: %q", o.Name, e.text))
		}
		if o.Desc != "" {
			for _, dl := range strings.Split(o.Desc, "\n") {
				if !strings.Contains(e.text, dl) {
					out = append(out, fmt.Sprintf("help: description line %q of option %q is missing from its entry", dl, o.Name))
				}
			}
		}
		// synopsis
		occ := aliasOccurrences(syn, alias)
		if len(occ) == 0 {
			out = append(out, fmt.Sprintf("help: option %q (%s) is not mentioned in the synopsis", o.Name, alias))
		} else if o.Required && occ[0] > 0 && syn[occ[0]-1] == '[' {
			out = append(out, fmt.Sprintf("help: required option %q is bracketed in the synopsis", o.Name))
		}
	}
	// no alias as a separate entry, nothing else listed
	if len(req)+len(opt) != len(ls.opts) {
		out = append(out, fmt.Sprintf("help: the option lists have %d entries for %d options", len(req)+len(opt), len(ls.opts)))
	}
	// declared arguments: each named exactly once in the synopsis, and listed once with its description when it has one
	if lv := ph.FindLevel(def, path); lv != nil {
		args := doc.entries("ARGUMENTS")
		for _, a := range lv.SynArgs {
			if n := strings.Count(syn, a[0]); n != 1 {
				out = append(out, fmt.Sprintf("help: declared argument %q is named %d times in the synopsis, want exactly once", a[0], n))
			}
			if a[1] == "" {
				continue
			}
			n := 0
			for _, e := range args {
				if e.head == a[0] || strings.HasPrefix(e.head, a[0]+" ") {
					n++
					for _, dl := range strings.Split(a[1], "\n") {
						if !strings.Contains(e.text, dl) {
							out = append(out, fmt.Sprintf("help: description line %q of argument %q is missing", dl, a[0]))
						}
					}
				}
			}
			if n != 1 {
				out = append(out, fmt.Sprintf("help: declared argument %q is listed %d times under ARGUMENTS, want exactly once", a[0], n))
			}
		}
	}
	// commands
	cmds := doc.entries("COMMANDS")
	for _, k := range ls.cmds {
		n := 0
		for _, e := range cmds {
			if e.head == k.Name || strings.HasPrefix(e.head, k.Name+" ") {
				n++
				for _, dl := range strings.Split(k.Desc, "\n") {
					if dl != "" && !strings.Contains(e.text, dl) {
						out = append(out, fmt.Sprintf("help: description line %q of command %q is missing", dl, k.Name))
					}
				}
			}
		}
		if n != 1 {
			out = append(out, fmt.Sprintf("help: command %q is listed %d times, want exactly once", k.Name, n))
		}
	}
	want := len(ls.cmds)
	if len(cmds) != want {
		out = append(out, fmt.Sprintf("help: COMMANDS lists %d entries, want %d (every sub-command except the help command)", len(cmds), want))
	}
	return out
}

// ---------------------------------------------------------------------------
// definitions

var c18Kinds = []ph.Kind{ph.Bool, ph.Incr, ph.Str, ph.Int, ph.Flt, ph.StrOpt, ph.IntOpt, ph.FltOpt, ph.StrS, ph.IntS, ph.FltS, ph.Map}

func defsC18() []*ph.Def {
	var out []*ph.Def
	descs := []string{"", "one line", "first line\nsecond line", "100% of it, %d or %s"} // the last one must not be taken for a format string
	for _, k := range c18Kinds {
		for nal := 0; nal <= 2; nal++ {
			for _, req := range []bool{false, true} {
				for _, env := range []string{"", "VERIF_C18_ENV"} {
					for _, desc := range descs {
						o := ph.OptDef{Name: "opt", Kind: k, Required: req, Env: env, Desc: desc, Min: 1, Max: 1}
						if k.IsMulti() && nal == 2 {
							o.Max = 3
						}
						if nal >= 1 {
							o.Aliases = append(o.Aliases, "o")
						}
						if nal >= 2 {
							o.Aliases = append(o.Aliases, "other")
							o.SplitAlias = env != "" // half of them: one Alias() modifier per alias
						}
						d := &ph.Def{Help: "help", Root: ph.CmdDef{Name: "prog", Desc: "the program",
							Opts: []ph.OptDef{{Name: "alpha", Kind: ph.Bool, Desc: "a flag"}, o, {Name: "zeta", Kind: ph.Str, DefS: "z", Aliases: []string{"z"}}}}}
						out = append(out, d)
					}
				}
			}
		}
	}
	// trees: commands, inherited options, argument declarations, wrapper
	for _, withHelp := range []string{"help", ""} {
		for _, k := range c18Kinds {
			d := &ph.Def{Help: withHelp, HelpAliases: nil, Root: ph.CmdDef{Name: "prog", Desc: "tree",
				Opts: []ph.OptDef{{Name: "ropt", Kind: k, Min: 1, Max: 2, Aliases: []string{"r"}, Required: k == ph.Int || k == ph.StrS}, {Name: "verbose", Kind: ph.Bool}},
				Cmds: []*ph.CmdDef{
					{Name: "build", Desc: "builds 100% of the things", Opts: []ph.OptDef{{Name: "target", Kind: ph.Str, Required: true, Desc: "what to build"}},
						SynArgs: [][2]string{{"<file>", "input file"}, {"<out>", "output\nfile"}},
						Cmds:    []*ph.CmdDef{{Name: "fast", Desc: "quick\nbuild", Opts: []ph.OptDef{{Name: "jobs", Kind: ph.Int, DefI: 4, Env: "VERIF_C18_JOBS"}}}}},
					{Name: "wrap", Desc: "wrapper", Unset: true, Opts: []ph.OptDef{{Name: "wopt", Kind: ph.Bool}}, Cmds: []*ph.CmdDef{{Name: "run", Desc: "below the wrapper", Opts: []ph.OptDef{{Name: "profile", Kind: ph.Str, Required: true}}}}},
					{Name: "zz", Desc: ""},
					{Name: "buildx", Desc: "a sibling whose name begins with another command's name"},
				}}}
			if withHelp != "" {
				d.HelpAliases = []string{"?"}
			}
			out = append(out, d)
		}
	}
	// the same definitions with Help() rendered after every declaration step (a non-initial history)
	n := len(out)
	for i := 0; i < n; i++ {
		if i%3 != 0 && i < 432 {
			continue
		}
		d := *out[i]
		d.EarlyHelp = true
		out = append(out, &d)
	}
	return out
}

func c18Paths(def *ph.Def) []string {
	var out []string
	var rec func(c *ph.CmdDef, path string)
	rec = func(c *ph.CmdDef, path string) {
		out = append(out, path)
		for _, k := range c.Cmds {
			p := k.Name
			if path != "" {
				p = path + "/" + k.Name
			}
			rec(k, p)
		}
	}
	rec(&def.Root, "")
	return out
}

// the three ways of reaching the help of a level
func c18Texts(def *ph.Def, env map[string]string, path string) (direct, viaOption, viaCommand, viaRoot string, haveOpt, haveCmd, haveRoot bool) {
	direct = ph.HelpOf(def, env, path)
	var words []string
	if path != "" {
		words = strings.Split(path, "/")
	}
	// Help() called on the root object after a Parse that selected the level (the caller prints help itself)
	{
		p := ph.Build(def, env)
		o := p.Run(words, false)
		if o.Panic == "" && !o.HasErr {
			viaRoot, _, _ = p.Help()
			haveRoot = true
		}
		p.Close()
	}
	if def.Help == "" {
		return
	}
	wrapperOnPath := false
	cur := &def.Root
	for _, w := range words {
		for _, k := range cur.Cmds {
			if k.Name == w {
				cur = k
				if k.Unset {
					wrapperOnPath = true
				}
			}
		}
	}
	if !wrapperOnPath {
		p := ph.Build(def, env)
		o := p.Run(append(append([]string{}, words...), "--"+def.Help), true)
		p.Close()
		if o.Panic == "" && !o.HasErr {
			viaOption, haveOpt = o.WDispatch, true
		}
		// the help option given behind other options of the level that take a value: the help still shows the
		// declared defaults, not what the command line has just set
		var valued []string
		for _, od := range c18Level(def, path).opts {
			switch od.Kind {
			case ph.Str, ph.StrOpt:
				valued = append(valued, "--"+od.Name+"=changed")
			case ph.Int, ph.IntOpt:
				valued = append(valued, "--"+od.Name+"=987")
			case ph.Flt, ph.FltOpt:
				valued = append(valued, "--"+od.Name+"=9.75")
			case ph.Incr:
				valued = append(valued, "--"+od.Name, "--"+od.Name)
			}
		}
		if len(valued) > 0 && haveOpt {
			p := ph.Build(def, env)
			o := p.Run(append(append(append([]string{}, words...), valued...), "--"+def.Help), true)
			p.Close()
			if o.Panic == "" && !o.HasErr && o.WDispatch != viaOption {
				viaOption = o.WDispatch // reported below as "differs from Help()"
			}
		}
	}
	p := ph.Build(def, env)
	o := p.Run(append(append([]string{}, words...), def.Help), true)
	p.Close()
	if o.Panic == "" && !o.HasErr {
		viaCommand, haveCmd = o.WDispatch, true
	}
	return
}

type c18Case struct {
	Def  *ph.Def `json:"def"`
	Path string  `json:"path"`
}

func c18Judge(def *ph.Def, env map[string]string, path string, verbose bool) ([]string, int) {
	direct, viaOpt, viaCmd, viaRoot, haveOpt, haveCmd, haveRoot := c18Texts(def, env, path)
	if verbose {
		fmt.Printf("level %q help text:\n%s\n", "/"+path, direct)
	}
	n := 1
	out := c18Check(def, path, direct)
	if haveOpt {
		n++
		if viaOpt != direct {
			out = append(out, fmt.Sprintf("help: the text written for the help option at level %q differs from Help()", "/"+path))
		}
	}
	if haveRoot {
		n++
		if viaRoot != direct {
			out = append(out, fmt.Sprintf("help: Help() of the root object after a Parse that selected level %q differs from Help() of that level", "/"+path))
		}
	}
	// the sections of the help are independent of each other: asking for two of them in one call gives the two texts
	{
		p := ph.Build(def, env)
		for _, pair := range [][2]getoptions.HelpSection{{getoptions.HelpOptionList, getoptions.HelpSynopsis}, {getoptions.HelpSynopsis, getoptions.HelpOptionList}, {getoptions.HelpCommandList, getoptions.HelpSynopsis}} {
			both := p.LevelHelpSections(path, pair[0], pair[1])
			a, b := p.LevelHelpSections(path, pair[0]), p.LevelHelpSections(path, pair[1])
			n++
			if both != a+b {
				out = append(out, fmt.Sprintf("help: Help(section %d, section %d) at level %q is not Help(section %d) followed by Help(section %d)", pair[0], pair[1], "/"+path, pair[0], pair[1]))
			}
		}
		p.Close()
	}
	// `help <name>` given one level up reaches the same text
	if def.Help != "" && path != "" {
		words := strings.Split(path, "/")
		argv := append(append(append([]string{}, words[:len(words)-1]...), def.Help), words[len(words)-1])
		p := ph.Build(def, env)
		o := p.Run(argv, true)
		p.Close()
		if o.Panic == "" && !o.HasErr {
			n++
			if o.WDispatch != direct {
				out = append(out, fmt.Sprintf("help: `%s` does not print the help of level %q (Dispatch returned %q)", strings.Join(argv, " "), "/"+path, o.DErr))
			}
		}
	}
	if haveCmd {
		n++
		if viaCmd != direct {
			out = append(out, fmt.Sprintf("help: the text written by the help command at level %q differs from Help()", "/"+path))
		}
	}
	return out, n
}

func init() {
	parserJudges["C18"] = func(pc *parserCase, verbose bool) []string {
		path, _ := pc.Extra["path"].(string)
		m, _ := c18Judge(pc.Def, pc.Env, path, verbose)
		return m
	}
	register(&Check{
		ID:        "C18",
		QuickSecs: 900, ThoroSecs: 300,
		Rule: "complete finite product: 12 option kinds x alias count {0,1,2} x required x environment binding x description {none, one line, two lines, text with percent signs} for the option of interest inside a three-option program (576 definitions), plus 24 command trees (every kind as inherited root option, commands with descriptions, sub-command, argument declarations, UnsetOptions wrapper, with and without help command) at every level, each also with every bound environment variable set to a text that is not a number, and the same definitions again with Help() rendered after every declaration step; " +
			"each help text is parsed structurally (sections, entries) and checked clause by clause, and the texts reached through the help option (alone and behind options of the level that were given a value), the help command, Help() of the level's object, `help <name>` one level up and Help() of the root object after a Parse that selected the level are compared byte for byte, and Help(section, section) equals the two sections rendered alone; states = definitions x levels, transitions = help texts generated, distinct_nontrivial = distinct help texts",
		Assume: []string{"the exact layout (padding, wrapping) is not part of the property and is not compared"},
		Run: func(c *RunCtx) {
			res := c.Res
			defs := defsC18()
			res.Bounds = map[string]any{"definitions": len(defs)}
			seen := map[string]bool{}
			for i, def := range defs {
				if !c.mine(i) {
					continue
				}
				// the environment at definition time: nothing set, or every bound variable set to a text that is usable for
				// strings only (the binding is shown whatever the variable holds)
				envs := []map[string]string{nil}
				bound := map[string]string{}
				var walk func(c *ph.CmdDef)
				walk = func(c *ph.CmdDef) {
					for _, o := range c.Opts {
						if o.Env != "" {
							bound[o.Env] = "abc"
						}
					}
					for _, k := range c.Cmds {
						walk(k)
					}
				}
				walk(&def.Root)
				if len(bound) > 0 {
					envs = append(envs, bound)
				}
				for _, env := range envs {
					for _, path := range c18Paths(def) {
						res.States++
						res.Evaluations++
						msgs, n := c18Judge(def, env, path, false)
						res.Transitions += int64(n)
						res.Traces += int64(n)
						res.count("help_texts_checked", int64(n))
						seen[ph.HelpOf(def, nil, path)] = true
						if path != "" {
							res.count("command_level_help_texts", 1)
						}
						if len(msgs) > 0 {
							pc := parserCase{Check: "C18", Def: def, Env: env, Extra: map[string]any{"path": path}}
							raw, _ := jsonMarshal(pc)
							res.violate(Violation{Prop: "C18", Msg: fmt.Sprintf("%s  [options=%s env=%v level=%q]", msgs[0], describeOptsFull(def), env, "/"+path), Case: raw, Weight: i})
						}
						if res.Evaluations%100 == 1 {
							res.sample(map[string]any{"options": describeOptsFull(def), "level": "/" + path})
						}
					}
				}
			}
			res.Distinct = int64(len(seen))
		},
		Replay:     replayParser,
		GateCounts: []string{"help_texts_checked", "command_level_help_texts"},
	})
}

func describeOptsFull(d *ph.Def) string {
	var parts []string
	for _, o := range d.Root.Opts {
		s := aliasString(&o) + ":" + o.Kind.String()
		if o.Required {
			s += ":required"
		}
		if o.Env != "" {
			s += ":env"
		}
		parts = append(parts, s)
	}
	return strings.Join(parts, ",")
}
