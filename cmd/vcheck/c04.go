package main

import (
	"fmt"
	"strings"

	"verif/harness/ph"
)

func defC04() *ph.Def {
	return &ph.Def{Help: "help", Root: ph.CmdDef{Name: "prog", ReqArgs: 1, // the program's function fetches its first argument with GetRequiredArg
		Opts: []ph.OptDef{
			{Name: "a", Kind: ph.Bool},
			{Name: "s", Kind: ph.Str},
			{Name: "so", Kind: ph.StrOpt, DefS: "D"},
			{Name: "io", Kind: ph.IntOpt, DefI: 7},
			{Name: "l", Kind: ph.StrS, Min: 1, Max: 3},
			{Name: "li", Kind: ph.IntS, Min: 2, Max: 3},
			{Name: "m", Kind: ph.Map, Min: 1, Max: 2},
		},
		Cmds: []*ph.CmdDef{{Name: "c", ReqArgs: 1, Opts: []ph.OptDef{{Name: "d", Kind: ph.Bool}}},
			{Name: "w", Unset: true, Unknown: 3, Cmds: []*ph.CmdDef{{Name: "c"}}}}, // a wrapper without options of its own, passing everything through
	}}
}

var c04Pre = []string{"p", "--a", "--s", "--s=v", "--so", "--io", "--l", "v", "--m", "k=v", "c", "--zz", "--li", "5", "--d", "--io=x", "w"}
var c04Tail = []string{"--a", "--s", "c", "--", "--zz", "-a", "p", "--d", "--help", "help", "", "x\r"} // the last one: a token ending in a carriage return is still returned verbatim

// judgeC04: argv = pre ++ ["--"] ++ tail, encoded in Extra["pre"] (length of pre).
func judgeC04(pc *parserCase, verbose bool) []string {
	n := 0
	if v, ok := pc.Extra["pre"]; ok {
		switch x := v.(type) {
		case float64:
			n = int(x)
		case int:
			n = x
		}
	}
	msgs, _ := c04Judge(pc.Def, pc.Argv[:n], pc.Argv[n+1:], verbose)
	return msgs
}

type c04Info struct {
	inDomain, asValue, stoppedBefore, afterOptional, afterGreedy, tailHasKnown, laterTerminator, failingPrefix bool
}

func c04Judge(def *ph.Def, pre, tail []string, verbose bool) ([]string, c04Info) {
	var info c04Info
	argv := append(append(append([]string{}, pre...), "--"), tail...)
	ex := ph.SpecParse(def, nil, argv)
	exPre := ph.SpecParse(def, nil, pre)
	p1 := ph.Build(def, nil)
	o1 := p1.Run(pre, true)
	p1.Close()
	p2 := ph.Build(def, nil)
	o2 := p2.Run(argv, true)
	p2.Close()
	if verbose {
		fmt.Printf("config: %s\npre   : %q\ntail  : %q\nParse(pre)          : err=%q remaining=%q\nParse(pre ++ -- ++ tail): err=%q remaining=%q\nreference: terminator index=%d stop index=%d `--` taken as mandatory value=%v unspecified=%v\n",
			def.ConfigString(), pre, tail, o1.ParseErr, o1.Remaining, o2.ParseErr, o2.Remaining, ex.TermIdx, ex.StopIdx, ex.DashDashAsValue, ex.Unspec)
	}
	if o1.Panic != "" || o2.Panic != "" || o1.Hang || o2.Hang {
		return nil, info
	}
	if len(ex.Unspec) > 0 || len(exPre.Unspec) > 0 {
		return nil, info
	}
	// is the `--` at position len(pre) the still-missing mandatory value of the option before it?
	if ex.DashDashAsValue && ex.TermIdx != len(pre) {
		if ex.TermIdx > len(pre) {
			// ... and a later `--` is the first one that is not a mandatory value: the statement applies to that one
			msgs, in2 := c04Judge(def, argv[:ex.TermIdx], argv[ex.TermIdx+1:], false)
			in2.asValue = true
			in2.laterTerminator = true
			return msgs, in2
		}
		info.asValue = true
		return nil, info
	}
	if o1.HasErr {
		// the prefix alone fails (unknown option in fail mode, conversion error ...): whether Parse fails is not this
		// property's business, but the tail behind `--` must not have set anything either
		info.failingPrefix = true
		var out []string
		if !o2.HasErr {
			return nil, info // (only possible if the `--` rescued a missing argument: excluded above)
		}
		for k, v := range o1.Vals {
			if o2.Vals[k] != v || o2.Called[k] != o1.Called[k] || o2.CalledAs[k] != o1.CalledAs[k] {
				out = append(out, fmt.Sprintf("terminator: Parse fails on the part before `--` (%s); option %s is %s (called=%v) after that failure and %s (called=%v) when `-- %s` follows - a token after `--` set an option", o1.ParseErr, k, v, o1.Called[k], o2.Vals[k], o2.Called[k], strings.Join(tail, " ")))
			}
		}
		return out, info
	}
	info.inDomain = true
	stopped := exPre.StopIdx >= 0 // require-order stopped before reaching the terminator: it is part of the verbatim tail
	info.stoppedBefore = stopped
	if len(pre) > 0 {
		switch pre[len(pre)-1] {
		case "--so", "--io":
			info.afterOptional = true
		case "--l", "--m", "v", "k=v", "5":
			info.afterGreedy = true
		}
	}
	for _, t := range tail {
		if t == "--a" || t == "--s" || t == "c" || t == "--d" {
			info.tailHasKnown = true
		}
	}
	var out []string
	if o2.HasErr {
		out = append(out, fmt.Sprintf("terminator: Parse(%q) succeeds but Parse(%q) fails with %q - the tail after `--` was interpreted", pre, argv, o2.ParseErr))
		return out, info
	}
	want := append([]string{}, o1.Remaining...)
	if stopped {
		want = append(want, "--")
	}
	want = append(want, tail...)
	if !eqStr(o2.Remaining, want) {
		out = append(out, fmt.Sprintf("terminator: remaining is %q, want remaining(Parse(pre))=%q followed by the tail %q verbatim", o2.Remaining, o1.Remaining, tail))
	}
	for k, v := range o1.Vals {
		if o2.Vals[k] != v {
			out = append(out, fmt.Sprintf("terminator: option %s is %s without the `-- tail` and %s with it (a token after `--` set an option)", k, v, o2.Vals[k]))
		}
		if o2.Called[k] != o1.Called[k] {
			out = append(out, fmt.Sprintf("terminator: Called(%s) is %v without the `-- tail` and %v with it", k, o1.Called[k], o2.Called[k]))
		}
	}
	if o1.Warnings != o2.Warnings {
		out = append(out, fmt.Sprintf("terminator: warnings differ: %q vs %q (a token after `--` triggered unknown-option handling)", o1.Warnings, o2.Warnings))
	}
	// the documented helper for positional arguments hands the first remaining token to the function as it is
	if len(o2.Calls) == 1 && len(o2.Calls[0].ReqArgs) == 1 && len(o2.Remaining) > 0 {
		if c := o2.Calls[0]; c.ReqArgErrs[0] || c.ReqArgs[0] != o2.Remaining[0] {
			out = append(out, fmt.Sprintf("terminator: the command function fetches its first argument with GetRequiredArg and gets %q (failed=%v), want the first remaining token %q", c.ReqArgs[0], c.ReqArgErrs[0], o2.Remaining[0]))
		}
	}
	if len(o1.Calls) != len(o2.Calls) || (len(o1.Calls) == 1 && o1.Calls[0].Path != o2.Calls[0].Path) {
		out = append(out, fmt.Sprintf("terminator: Dispatch runs %v without the tail and %v with it (a token after `--` selected a command)", callPaths(o1), callPaths(o2)))
	}
	return out, info
}

func callPaths(o *ph.Outcome) []string {
	var out []string
	for _, c := range o.Calls {
		out = append(out, "/"+c.Path)
	}
	return out
}

func init() {
	parserJudges["C04"] = judgeC04
	register(&Check{
		ID:        "C04",
		QuickSecs: 900, ThoroSecs: 3000,
		Rule: "input-space exploration, differential: argv = pre ++ [`--`] ++ tail for every pre of length <= Lp over 17 tokens (positional, flag, valued / optional-valued / greedy multi-valued / map options and their values, command, unknown option) and every tail of length <= Lt over 12 tokens " +
			"(known options, command name, further `--`, unknown and short options) in all 18 configurations; unless the reference model says the `--` is the still-missing mandatory value of the option before it (then the statement is applied to the next `--` of the tail), Parse(argv) must equal Parse(pre) in every option value, Called, warning and dispatch target and return remaining(pre) ++ tail; when Parse(pre) fails, Parse(argv) must fail with every option value and Called flag as after Parse(pre); " +
			"distinct_nontrivial = distinct in-domain (configuration, pre, tail) cases",
		Assume: []string{"pre longer than Lp / tail longer than Lt and other tokens are not covered"},
		Run: func(c *RunCtx) {
			lp, lt := 3, 2
			if c.Tier == "thorough" {
				lp, lt = 4, 2
			}
			res := c.Res
			res.Bounds = map[string]any{"Lp": lp, "Lt": lt, "pre_alphabet": c04Pre, "tail_alphabet": c04Tail, "configurations": 18}
			defs := configs(defC04, []bool{false, true})
			var tails [][]string
			var trec func(cur []string)
			trec = func(cur []string) {
				tails = append(tails, append([]string{}, cur...))
				if len(cur) == lt {
					return
				}
				for _, t := range c04Tail {
					trec(append(cur, t))
				}
			}
			trec(nil)
			units := len(defs) * (len(c04Pre) + 1)
			for {
				u := c.claim()
				if u >= units {
					break
				}
				if c.expired() {
					res.Capped = true
					break
				}
				def := defs[u/(len(c04Pre)+1)]
				first := u%(len(c04Pre)+1) - 1
				visit := func(pre []string) {
					res.States++
					for _, tail := range tails {
						res.Evaluations++
						res.Traces += 2
						res.Transitions += int64(len(pre) + 1 + len(tail))
						msgs, info := c04Judge(def, pre, tail, false)
						if info.asValue {
							res.count("cases_where_terminator_is_a_mandatory_value", 1)
						}
						if info.failingPrefix {
							res.count("cases_with_a_failing_prefix_compared", 1)
						}
						if info.laterTerminator && info.inDomain {
							res.count("in_domain_terminator_after_a_dashdash_taken_as_mandatory_value", 1)
						}
						if info.inDomain {
							res.count("in_domain_cases", 1)
							if info.afterOptional {
								res.count("in_domain_terminator_after_optional_value_option", 1)
							}
							if info.afterGreedy {
								res.count("in_domain_terminator_after_multi_value_option_or_value", 1)
							}
							if info.tailHasKnown {
								res.count("in_domain_tail_with_known_option_or_command", 1)
							}
							if info.stoppedBefore {
								res.count("in_domain_require_order_stopped_before_terminator", 1)
							}
						}
						if len(msgs) > 0 {
							argv := append(append(append([]string{}, pre...), "--"), tail...)
							pc := parserCase{Check: "C04", Def: def, Argv: argv, Extra: map[string]any{"pre": len(pre)}}
							raw, _ := jsonMarshal(pc)
							res.violate(Violation{Prop: "C04", Msg: fmt.Sprintf("%s  [%s]", msgs[0], def.ConfigString()), Case: raw, Weight: len(argv), Test: goTest(def, nil, argv, msgs[0])})
						}
						if res.Evaluations%100000 == 1 {
							res.sample(map[string]any{"config": def.ConfigString(), "pre": append([]string{}, pre...), "tail": tail})
						}
					}
				}
				if first < 0 {
					visit([]string{})
					continue
				}
				pre := []string{c04Pre[first]}
				var rec func()
				rec = func() {
					visit(pre)
					if len(pre) == lp || len(res.Violations) >= 3 || c.stopped() {
						return
					}
					for _, t := range c04Pre {
						pre = append(pre, t)
						rec()
						pre = pre[:len(pre)-1]
					}
				}
				rec()
			}
			res.Distinct = res.Counters["in_domain_cases"]
		},
		Replay:     replayParser,
		GateCounts: []string{"in_domain_cases", "in_domain_terminator_after_optional_value_option", "in_domain_terminator_after_multi_value_option_or_value", "in_domain_tail_with_known_option_or_command", "cases_where_terminator_is_a_mandatory_value", "in_domain_terminator_after_a_dashdash_taken_as_mandatory_value"},
	})
}
