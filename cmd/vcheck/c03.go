package main

import (
	"encoding/json"
	"fmt"
	"os"

	"verif/harness/ph"
)

// configs returns the 18 mode / unknown-mode / require-order variants of a base definition.
func configs(base func() *ph.Def, requireOrder []bool) []*ph.Def {
	var out []*ph.Def
	for _, ro := range requireOrder {
		for unknown := 0; unknown < 3; unknown++ {
			for mode := 0; mode < 3; mode++ {
				d := base()
				d.Mode, d.Unknown, d.RequireOrder = mode, unknown, ro
				out = append(out, d)
			}
		}
	}
	return out
}

func defC03() *ph.Def {
	return &ph.Def{Help: "help", Root: ph.CmdDef{Name: "prog",
		Opts: []ph.OptDef{
			{Name: "a", Kind: ph.Bool},
			{Name: "b", Kind: ph.Bool},
			{Name: "s", Kind: ph.Str},
			{Name: "l", Kind: ph.StrS, Min: 1, Max: 2},
			{Name: "n", Kind: ph.IntS, Min: 1, Max: 2},
			{Name: "m", Kind: ph.Map, Min: 1, Max: 2},
			{Name: "o", Kind: ph.StrOpt, DefS: "OD"},
		},
		Cmds: []*ph.CmdDef{
			{Name: "c", Opts: []ph.OptDef{{Name: "d", Kind: ph.Bool}}, Cmds: []*ph.CmdDef{{Name: "e"}}},
			{Name: "w", Unset: true, Unknown: 3}, // wrapper: inherits no option, passes everything through
		},
	}}
}

// isSubsequence: small is an order-preserving sub-sequence of big.
func isSubsequence(small, big []string) bool {
	j := 0
	for _, x := range big {
		if j < len(small) && small[j] == x {
			j++
		}
	}
	return j == len(small)
}

func judgeC03(pc *parserCase, verbose bool) []string {
	if verbose {
		p := ph.Build(pc.Def, pc.Env)
		o := p.Run(pc.Argv, true)
		p.Close()
		ex := ph.SpecParse(pc.Def, pc.Env, pc.Argv)
		fmt.Printf("argv      : %q\nconfig    : %s\nobserved  : remaining=%q err=%q\nreference : remaining=%q (conservation view %q) err=%v(%s) unspecified=%v\n", pc.Argv, pc.Def.ConfigString(), o.Remaining, o.ParseErr, ex.Remaining, ex.RemainingAll, ex.Err, ex.ErrKind, ex.Unspec)
	}
	msgs, _ := judgeC03x(pc)
	return msgs
}

func eqStr(a, b []string) bool {
	if len(a) != len(b) {
		return false
	}
	for i := range a {
		if a[i] != b[i] {
			return false
		}
	}
	return true
}

func init() {
	parserJudges["C03"] = judgeC03
	register(&Check{
		ID:        "C03",
		QuickSecs: 900, ThoroSecs: 3000,
		Rule: "input-space exploration of the real parser: every argv of length <= L over a 21-token alphabet (positionals, empty string, lonesome dash, terminator, known/unknown long, short and bundled options, attached and detached values, multi-value string / int / map options with optional further values, an optional-value option with and without attached value, command names) " +
			"in all 18 mode x unknown-mode x require-order configurations plus 36 in which the command, or only its sub-command, sets a different unknown-mode than the root, and 6 in which that sub-command is the only command that does, plus 9 in which only the command sets require-order; remaining compared (i) model-free as a sub-sequence of the input and (ii) with the reference model; states = argv prefixes visited, transitions = token appends, " +
			"distinct_nontrivial = distinct (configuration, argv) cases inside the specified territory (every enumerated case is distinct by construction)",
		Assume: []string{"tokens outside the alphabet and argv longer than L are not covered", "cases in the closed list of unspecified zones (DESIGN.md section 3) are only checked model-free"},
		Run: func(c *RunCtx) {
			depth := 4
			if c.Tier == "thorough" {
				depth = 5
			}
			alpha := []string{"p", "", "-", "--", "--a", "-a", "-ab", "-az", "-zy", "--s", "--s=v", "--l", "--zz", "-z", "--zz=1", "c", "e", "v", "--n", "5", "--m=k=v"}
			// options only the command knows, given before the command name, alone and bundled with an unknown letter;
			// the help option (HelpCommand) in the middle of a command line; dashes directly followed by `=`;
			// a bundle whose valued letter is not the last one
			ext := []string{"-dz", "--d", "-zd", "--help", "-=5", "--=x", "-sa", "-sz", "w", "--o=x", "--o", "-oz", "-5"} // ... a bundle whose optional-value letter is followed by an unknown one; an all-digit single-dash token
			defs := configs(defC03, []bool{false, true})
			// the command sets an unknown-mode of its own (SetUnknownMode after NewCommand)
			for _, d := range configs(defC03, []bool{false}) {
				for cu := 0; cu < 3; cu++ {
					if cu == d.Unknown {
						continue
					}
					d2 := *d
					root := d.Root
					kid := *d.Root.Cmds[0]
					kid.Unknown = cu + 1
					root.Cmds = []*ph.CmdDef{&kid, d.Root.Cmds[1]}
					d2.Root = root
					defs = append(defs, &d2)
					// ... or only the sub-command two levels down does
					d3 := *d
					root3 := d.Root
					kid3 := *d.Root.Cmds[0]
					sub3 := *kid3.Cmds[0]
					sub3.Unknown = cu + 1
					kid3.Cmds = []*ph.CmdDef{&sub3}
					root3.Cmds = []*ph.CmdDef{&kid3, d.Root.Cmds[1]}
					d3.Root = root3
					defs = append(defs, &d3)
					// ... and no sibling command passes unknown options either (`w` is then plain text)
					if d.Mode == 0 {
						d4 := d3
						root4 := root3
						root4.Cmds = []*ph.CmdDef{&kid3}
						d4.Root = root4
						defs = append(defs, &d4)
					}
				}
			}
			// require-order set on the command only (the root parses in any order)
			for _, d := range configs(defC03, []bool{false}) {
				root := d.Root
				kid := *d.Root.Cmds[0]
				kid.RequireOrder = true
				root.Cmds = []*ph.CmdDef{&kid, d.Root.Cmds[1]}
				d.Root = root
				defs = append(defs, d)
			}
			c.Res.Bounds = map[string]any{"L": depth, "alphabet": alpha, "alphabet_extension_for_argv_shorter_than_L": ext, "configurations": len(defs)}
			dist := distinctSet{}
			sw := &sweep{c: c, defs: defs, alpha: alpha, ext: ext, depth: depth}
			sw.visit = func(def *ph.Def, argv []string) {
				pc := &parserCase{Check: "C03", Def: def, Argv: argv}
				res := c.Res
				res.Evaluations++
				res.Traces++
				if os.Getenv("VERIF_DEBUG") != "" {
					res.count("dbg_"+def.ConfigString()+fmt.Sprint(def.Root.Cmds[0].Unknown), 1)
				}
				msgs, info := judgeC03x(pc)
				if info.inDomain {
					res.count("in_domain_cases", 1)
					dist.add(info.key)
				}
				if info.parseOK {
					res.count("successful_parses", 1)
				}
				if info.unknownKept {
					res.count("cases_with_unknown_token_passed_through", 1)
				}
				if info.command {
					res.count("cases_selecting_a_command", 1)
				}
				if info.mixedPolicy {
					res.count("successful_parses_with_different_unknown_modes_on_the_command_path", 1)
				}
				if len(msgs) > 0 {
					res.violate(Violation{Prop: "C03", Msg: fmt.Sprintf("%s  [%s argv=%q]", msgs[0], def.ConfigString(), argv), Case: newCase("C03", def, nil, argv, true), Weight: len(argv), Known: knownSig("C03", msgs[0], pc)})
				}
				if res.Evaluations%50000 == 1 {
					res.sample(map[string]any{"config": def.ConfigString(), "argv": append([]string{}, argv...)})
				}
			}
			sw.run()
			c.Res.Distinct = c.Res.Counters["in_domain_cases"]
			c.Res.count("distinct_outcome_fingerprints_summed_over_workers", int64(len(dist)))
		},
		Replay:     replayParser,
		GateCounts: []string{"in_domain_cases", "cases_with_unknown_token_passed_through", "cases_selecting_a_command"},
	})
}

type c03info struct {
	inDomain, parseOK, unknownKept, command, mixedPolicy bool
	key                                                  uint64
}

func judgeC03x(pc *parserCase) ([]string, c03info) {
	var info c03info
	p := ph.Build(pc.Def, pc.Env)
	defer p.Close()
	o := p.Run(pc.Argv, true)
	ex := ph.SpecParse(pc.Def, pc.Env, pc.Argv)
	if o.Panic != "" || o.Hang || o.HasErr {
		return nil, info
	}
	info.parseOK = true
	var out []string
	if !isSubsequence(o.Remaining, pc.Argv) {
		out = append(out, fmt.Sprintf("remaining: %q is not an order-preserving sub-sequence of the input %q (a token was invented, altered, duplicated or moved)", o.Remaining, pc.Argv))
	}
	// (ii) exactly the tokens the reference model does not classify as consumed.  Which unknown-option policy applies
	// (zone U15: different unknown modes along the command path) and whether Parse should have failed because of an
	// unknown option are other properties' business: whenever Parse did succeed, conservation is owed.
	onlyU15 := true
	hasU4 := false
	for _, z := range ex.Unspec {
		if z == "U4" {
			hasU4 = true // `-=x`, `--=x`: text or unknown option - kept either way
		} else if z != "U15" {
			onlyU15 = false
		}
	}
	if hasU4 && ex.Err {
		onlyU15 = false
	}
	if onlyU15 && (!ex.Err || ex.ErrKind == "unknown") {
		info.inDomain = true
		info.key = outcomeKey(o)
		info.unknownKept = len(ex.Unknowns) > 0
		info.command = ex.Level != ""
		info.mixedPolicy = len(ex.Unspec) >= 1 && !hasU4
		if !eqStr(ex.RemainingAll, o.Remaining) {
			out = append(out, fmt.Sprintf("remaining: got %q, want %q", o.Remaining, ex.RemainingAll))
		}
		for _, c := range o.Calls {
			if !eqStr(c.Args, o.Remaining) {
				out = append(out, fmt.Sprintf("remaining: CommandFn %q received %q but Parse returned %q", c.Path, c.Args, o.Remaining))
			}
		}
	}
	return out, info
}

// knownSig maps a violation to the signature of a known finding (none are registered: every
// confirmed defect so far has been repaired, see known_findings.json).
func knownSig(prop, msg string, pc *parserCase) string { return "" }

var _ = json.Marshal
