package main

import (
	"fmt"
	"strings"

	"verif/harness/ph"
)

// letters of the single-dash alphabet: a, b flags; n increment; s string; i int; é string (multibyte, valued); ß flag (multibyte); z undeclared
var c07Letters = []string{"a", "b", "n", "s", "i", "é", "ß", "z", "1", "l", " "} // the blank is no option name: it only ever is part of an attached value (SingleDash) or of an unknown name

func defC07(mode int, late bool) *ph.Def {
	return &ph.Def{Mode: mode, LateMode: late, Unknown: 2, Root: ph.CmdDef{Name: "prog",
		Opts: []ph.OptDef{
			{Name: "a", Kind: ph.Bool},
			{Name: "b", Kind: ph.Bool},
			{Name: "n", Kind: ph.Incr},
			{Name: "s", Kind: ph.Str, DefS: "D"},
			{Name: "i", Kind: ph.Int, DefI: 7},
			{Name: "é", Kind: ph.Str, DefS: "E"},
			{Name: "ß", Kind: ph.Bool},
			{Name: "an", Kind: ph.Bool},
			{Name: "long", Kind: ph.Str, DefS: "L"},
			{Name: "1", Kind: ph.Bool},                  // a digit as option name: `-1` is an option, not a number
			{Name: "io", Kind: ph.IntOpt, DefI: 4},      // optional numeric value
			{Name: "fl", Kind: ph.FltS, Min: 1, Max: 2}, // numeric slice with room for a second value
			{Name: "o", Kind: ph.StrOpt, DefS: "OD"},    // one-letter optional-value option: `--o v` takes v in every mode
			{Name: "l", Kind: ph.StrS, Min: 1, Max: 1},  // string list: an attached `a,b` is one element however it is spelled
		},
		Cmds: []*ph.CmdDef{{Name: "c", Opts: []ph.OptDef{{Name: "d", Kind: ph.Bool}, {Name: "e", Kind: ph.Incr}, {Name: "f", Kind: ph.Str, DefS: "F"}}}}, // options only the command has: bundles of them behind the command name
	}}
}

var c07Flag = map[string]bool{"a": true, "b": true, "n": true, "ß": true, "1": true}
var c07Declared = map[string]bool{"a": true, "b": true, "n": true, "s": true, "i": true, "é": true, "ß": true, "1": true, "l": true}

// c07Rewrite returns the documented rewriting of the single-dash token -LETTERS[=v] and whether the
// statement's preconditions hold in this mode.
func c07Rewrite(mode int, letters []string, attach *string) (rew []string, applies bool) {
	name := strings.Join(letters, "")
	att := ""
	if attach != nil {
		att = "=" + *attach
	}
	switch mode {
	case 0:
		return []string{"--" + name + att}, true
	case 1:
		for i, l := range letters {
			if !c07Declared[l] {
				return nil, false
			}
			if i < len(letters)-1 && !c07Flag[l] {
				return nil, false
			}
			if i == len(letters)-1 {
				rew = append(rew, "--"+l+att)
			} else {
				rew = append(rew, "--"+l)
			}
		}
		return rew, true
	default:
		rest := strings.Join(letters[1:], "") + att
		if rest == "" {
			return []string{"--" + letters[0]}, true
		}
		return []string{"--" + letters[0] + "=" + rest}, true
	}
}

func c07Context(ctx int, toks []string) []string {
	switch ctx {
	case 0:
		return toks
	case 1:
		return append(append([]string{}, toks...), "val")
	case 2:
		return append(append([]string{}, toks...), "--a")
	case 3:
		return append([]string{"pos"}, toks...)
	case 4:
		return append([]string{"c"}, toks...)
	case 5:
		return append(append([]string{"c"}, toks...), "7")
	case 6: // right behind an optional numeric option given without a value
		return append([]string{"--io"}, toks...)
	default: // right behind a numeric slice that could take one more value
		return append([]string{"--fl", "2.5"}, toks...)
	}
}

const c07Contexts = 8

// c07Equiv compares the two outcomes; tokens of the original that were passed through are mapped through the rewriting.
func c07Equiv(o1, o2 *ph.Outcome, tok string, rew []string) []string {
	var out []string
	if o1.HasErr != o2.HasErr {
		return []string{fmt.Sprintf("single-dash: the token fails=%v (%q) but its rewriting %q fails=%v (%q)", o1.HasErr, o1.ParseErr, rew, o2.HasErr, o2.ParseErr)}
	}
	if o1.HasErr {
		return nil
	}
	for k, v := range o2.Vals {
		if o1.Vals[k] != v {
			out = append(out, fmt.Sprintf("single-dash: option %s reads %s but %s for the rewriting %q", k, o1.Vals[k], v, rew))
		}
		if o1.Called[k] != o2.Called[k] {
			out = append(out, fmt.Sprintf("single-dash: Called(%s) is %v but %v for the rewriting %q", k, o1.Called[k], o2.Called[k], rew))
		}
	}
	// remaining: replace the original token by its rewriting (it can only be there if it was passed through as unknown)
	var mapped []string
	for _, r := range o1.Remaining {
		if r == tok {
			mapped = append(mapped, rew...)
		} else {
			mapped = append(mapped, r)
		}
	}
	if !eqStr(mapped, o2.Remaining) {
		// an unknown rewriting of several tokens keeps only the unknown ones; compare without the pass-through tokens
		strip := func(ss []string) []string {
			var r []string
			for _, s := range ss {
				if s == tok || contains(rew, s) {
					continue
				}
				r = append(r, s)
			}
			return r
		}
		if !eqStr(strip(o1.Remaining), strip(o2.Remaining)) {
			out = append(out, fmt.Sprintf("single-dash: remaining is %q but %q for the rewriting %q", o1.Remaining, o2.Remaining, rew))
		}
	}
	return out
}

func contains(ss []string, s string) bool {
	for _, x := range ss {
		if x == s {
			return true
		}
	}
	return false
}

func judgeC07(pc *parserCase, verbose bool) []string {
	if pc.Extra != nil && pc.Extra["kind"] == "long" {
		return c07Long(pc.Argv, pc.Def.LateMode, verbose)
	}
	// find the single-dash token
	idx := -1
	for i, t := range pc.Argv {
		if strings.HasPrefix(t, "-") && !strings.HasPrefix(t, "--") && t != "-" {
			idx = i
			break
		}
	}
	if idx < 0 {
		return nil
	}
	tok := pc.Argv[idx]
	body := tok[1:]
	var attach *string
	if i := strings.Index(body, "="); i >= 0 {
		v := body[i+1:]
		attach = &v
		body = body[:i]
	}
	var letters []string
	for _, r := range body {
		letters = append(letters, string(r))
	}
	rew, ok := c07Rewrite(pc.Def.Mode, letters, attach)
	if !ok && pc.Def.Mode == 1 && idx > 0 && pc.Argv[0] == "c" {
		// behind the command name the command's own options d, e (flags) and f are declared too
		ok = true
		rew = nil
		for i, l := range letters {
			known := c07Declared[l] || l == "d" || l == "e" || l == "f"
			flag := c07Flag[l] || l == "d" || l == "e"
			if !known || (i < len(letters)-1 && !flag) {
				ok = false
			}
			if i == len(letters)-1 && attach != nil {
				rew = append(rew, "--"+l+"="+*attach)
			} else {
				rew = append(rew, "--"+l)
			}
		}
	}
	if !ok {
		return nil
	}
	argv2 := append(append(append([]string{}, pc.Argv[:idx]...), rew...), pc.Argv[idx+1:]...)
	p1 := ph.Build(pc.Def, nil)
	o1 := p1.Run(pc.Argv, false)
	p1.Close()
	p2 := ph.Build(pc.Def, nil)
	o2 := p2.Run(argv2, false)
	p2.Close()
	if verbose {
		fmt.Printf("config   : %s\ntoken    : %q  in %q\nrewriting: %q in %q\nobserved (token)    : err=%q remaining=%q vals=%v\nobserved (rewriting): err=%q remaining=%q vals=%v\n", pc.Def.ConfigString(), tok, pc.Argv, rew, argv2, o1.ParseErr, o1.Remaining, o1.Vals, o2.ParseErr, o2.Remaining, o2.Vals)
	}
	if o1.Panic != "" || o2.Panic != "" || o1.Hang || o2.Hang {
		return nil
	}
	return c07Equiv(o1, o2, tok, rew)
}

// long-only command lines are interpreted identically in the three modes
func c07Long(argv []string, late bool, verbose bool) []string {
	var outs [3]*ph.Outcome
	for mode := 0; mode < 3; mode++ {
		p := ph.Build(defC07(mode, late), nil)
		outs[mode] = p.Run(argv, false)
		p.Close()
		if verbose {
			fmt.Printf("mode %d: err=%q remaining=%q vals=%v\n", mode, outs[mode].ParseErr, outs[mode].Remaining, outs[mode].Vals)
		}
	}
	var out []string
	for mode := 1; mode < 3; mode++ {
		a, b := outs[0], outs[mode]
		if a.Panic != "" || b.Panic != "" {
			continue
		}
		if a.ParseErr != b.ParseErr || !eqStr(a.Remaining, b.Remaining) {
			out = append(out, fmt.Sprintf("long options: %q gives err=%q remaining=%q in normal mode but err=%q remaining=%q in %s mode", argv, a.ParseErr, a.Remaining, b.ParseErr, b.Remaining, []string{"normal", "bundling", "singleDash"}[mode]))
			continue
		}
		if a.HasErr {
			continue
		}
		for k, v := range a.Vals {
			if b.Vals[k] != v || a.Called[k] != b.Called[k] || a.CalledAs[k] != b.CalledAs[k] {
				out = append(out, fmt.Sprintf("long options: option %s differs between normal mode (%s) and %s mode (%s) for %q", k, v, []string{"normal", "bundling", "singleDash"}[mode], b.Vals[k], argv))
			}
		}
	}
	return out
}

func init() {
	// the rewriting table and the definition must agree (a letter missing from the definition once went unnoticed)
	have := map[string]bool{}
	for _, o := range defC07(0, false).Root.Opts {
		have[o.Name] = true
	}
	for l := range c07Declared {
		if !have[l] {
			panic("C07: letter " + l + " is listed as declared but defC07 does not declare it")
		}
	}
	parserJudges["C07"] = judgeC07
	register(&Check{
		ID:        "C07",
		QuickSecs: 900, ThoroSecs: 3000,
		Rule: "input-space exploration, metamorphic: every single-dash token -LETTERS[=v] with LETTERS a string of length 1..Ll over 11 letters (two flags, increment, string, int, a multibyte valued option, a multibyte flag, an undeclared letter, a digit that is a declared flag, a string list, a blank) and v in {none, x, 5, =y, `a b`, empty, `a,b`, a value with a line break} " +
			"in 8 contexts (alone, followed by a value, followed by an option, after a positional, after a command, after a command and followed by a value, right behind an optional numeric option, right behind a numeric slice with room) x 3 modes x SetMode before/after the commands are declared; the complete outcome of Parse on the token is compared with Parse on its documented rewriting " +
			"(restricted to the statement's preconditions in Bundling mode); bundles of up to three letters over a command's own and inherited options behind the command name (Bundling); plus every long-only argv of length <= 3 over 15 tokens (one-letter abbreviations of long names and a one-letter optional-value option included) compared across the three modes; distinct_nontrivial = distinct (definition, argv) pairs compared",
		Assume: []string{"letters outside the alphabet and tokens longer than Ll are not covered"},
		Run: func(c *RunCtx) {
			ll := 4
			if c.Tier == "thorough" {
				ll = 5
			}
			res := c.Res
			attaches := []*string{nil, sp("x"), sp("5"), sp("=y"), sp("a b"), sp(""), sp("a,b"), sp("a\nb")}
			res.Bounds = map[string]any{"Ll": ll, "letters": c07Letters, "contexts": c07Contexts}
			longAlpha := []string{"--a", "--s=v", "--s", "v", "--long=x", "--lo=x", "--an", "--i=3", "--zz", "c", "--é=w", "--l=y", "--f", "--1", "--o"}
			units := len(c07Letters) + len(longAlpha)
			for {
				u := c.claim()
				if u == units {
					// Bundling mode, behind the command name: bundles of the command's own flags (d, e), an inherited flag (a)
					// and the command's valued option (f) against one token per letter
					cl := []string{"a", "d", "e", "f"}
					cflag := map[string]bool{"a": true, "d": true, "e": true}
					var bundles [][]string
					for _, x := range cl {
						for _, y := range cl {
							bundles = append(bundles, []string{x, y})
							for _, z := range cl {
								bundles = append(bundles, []string{x, y, z})
							}
						}
					}
					for _, letters := range bundles {
						okPre := true
						for _, l := range letters[:len(letters)-1] {
							if !cflag[l] {
								okPre = false
							}
						}
						if !okPre {
							continue
						}
						for _, att := range []*string{nil, sp("x")} {
							tok := "-" + strings.Join(letters, "")
							var rew []string
							for i, l := range letters {
								if i == len(letters)-1 && att != nil {
									rew = append(rew, "--"+l+"="+*att)
								} else {
									rew = append(rew, "--"+l)
								}
							}
							if att != nil {
								tok += "=" + *att
							}
							for _, late := range []bool{false, true} {
								def := defC07(1, late)
								for _, tail := range [][]string{nil, {"val"}, {"-d"}} {
									argv := append(append([]string{"c"}, tok), tail...)
									argv2 := append(append([]string{"c"}, rew...), tail...)
									p1 := ph.Build(def, nil)
									o1 := p1.Run(argv, false)
									p1.Close()
									p2 := ph.Build(def, nil)
									o2 := p2.Run(argv2, false)
									p2.Close()
									res.States++
									res.Evaluations++
									res.Traces += 2
									res.count("bundles_of_command_level_options_compared", 1)
									if o1.Panic != "" || o2.Panic != "" || o1.Hang || o2.Hang {
										continue
									}
									if msgs := c07Equiv(o1, o2, tok, rew); len(msgs) > 0 {
										res.violate(Violation{Prop: "C07", Msg: fmt.Sprintf("%s  [%s argv=%q]", msgs[0], def.ConfigString(), argv), Case: newCase("C07", def, nil, argv, false), Weight: len(letters)*10 + len(tail), Test: goTest(def, nil, argv, msgs[0])})
									}
								}
							}
						}
					}
					continue
				}
				if u > units {
					break
				}
				if u >= len(c07Letters) {
					// long-only argv across modes
					first := u - len(c07Letters)
					argv := []string{longAlpha[first]}
					var rec func()
					rec = func() {
						for _, late := range []bool{false, true} {
							res.States++
							res.Evaluations++
							res.Traces += 3
							res.Transitions += int64(len(argv))
							res.count("long_only_argv_compared_across_modes", 1)
							if msgs := c07Long(argv, late, false); len(msgs) > 0 {
								pc := parserCase{Check: "C07", Def: defC07(0, late), Argv: append([]string{}, argv...), Extra: map[string]any{"kind": "long"}}
								raw, _ := jsonMarshal(pc)
								res.violate(Violation{Prop: "C07", Msg: msgs[0], Case: raw, Weight: len(argv)})
							}
						}
						if len(argv) == 3 || len(res.Violations) >= 3 {
							return
						}
						for _, t := range longAlpha {
							argv = append(argv, t)
							rec()
							argv = argv[:len(argv)-1]
						}
					}
					rec()
					continue
				}
				letters := []string{c07Letters[u]}
				var rec func()
				rec = func() {
					for _, att := range attaches {
						tok := "-" + strings.Join(letters, "")
						if att != nil {
							tok += "=" + *att
						}
						for mode := 0; mode < 3; mode++ {
							rew, ok := c07Rewrite(mode, letters, att)
							if !ok {
								res.count("tokens_outside_the_bundling_precondition", 1)
								continue
							}
							for _, late := range []bool{false, true} {
								def := defC07(mode, late)
								for ctx := 0; ctx < c07Contexts; ctx++ {
									argv := c07Context(ctx, []string{tok})
									argv2 := c07Context(ctx, rew)
									p1 := ph.Build(def, nil)
									o1 := p1.Run(argv, false)
									p1.Close()
									p2 := ph.Build(def, nil)
									o2 := p2.Run(argv2, false)
									p2.Close()
									res.States++
									res.Evaluations++
									res.Traces += 2
									res.Transitions += int64(len(argv) + len(argv2))
									res.count("single_dash_tokens_compared_with_rewriting", 1)
									if len(letters) > 1 && mode == 1 {
										res.count("bundles_of_two_or_more_letters_compared", 1)
									}
									if o1.Panic != "" || o2.Panic != "" || o1.Hang || o2.Hang {
										continue
									}
									if msgs := c07Equiv(o1, o2, tok, rew); len(msgs) > 0 {
										res.violate(Violation{Prop: "C07", Msg: fmt.Sprintf("%s  [%s argv=%q]", msgs[0], def.ConfigString(), argv), Case: newCase("C07", def, nil, argv, false), Weight: len(letters)*10 + ctx, Test: goTest(def, nil, argv, msgs[0])})
									}
									if res.Evaluations%30000 == 1 {
										res.sample(map[string]any{"config": def.ConfigString(), "argv": argv, "rewriting": argv2})
									}
								}
							}
						}
					}
					if len(letters) == ll || len(res.Violations) >= 3 {
						return
					}
					for _, l := range c07Letters {
						letters = append(letters, l)
						rec()
						letters = letters[:len(letters)-1]
					}
				}
				rec()
			}
			res.Distinct = res.Counters["single_dash_tokens_compared_with_rewriting"] + res.Counters["long_only_argv_compared_across_modes"]
		},
		Replay:     replayParser,
		GateCounts: []string{"single_dash_tokens_compared_with_rewriting", "bundles_of_two_or_more_letters_compared", "long_only_argv_compared_across_modes", "bundles_of_command_level_options_compared"},
	})
}

func sp(s string) *string { return &s }
