// vcheck runs one property check:
//
//	vcheck -id C13 -tier quick            parent: shards the case space over worker processes
//	vcheck -id C13 -replay file.json      re-executes one recorded case
//
// Exit 0: property held on everything explored; 1: VIOLATION lines printed; 2: tool error.
package main

import (
	"encoding/json"
	"flag"
	"fmt"
	"os"
	"os/exec"
	"path/filepath"
	"runtime"
	"sort"
	"strconv"
	"strings"
	"sync"
	"syscall"
	"time"
)

// Violation is one failing case with everything needed to replay it.
type Violation struct {
	Prop   string          `json:"property"`
	Msg    string          `json:"message"`
	Case   json.RawMessage `json:"case"`
	Test   string          `json:"unit_test,omitempty"`
	Known  string          `json:"known,omitempty"`
	Weight int             `json:"weight"` // smaller = simpler counterexample
}

// WorkerResult is what one worker reports.
type WorkerResult struct {
	Evaluations int64                `json:"evaluations"`
	States      int64                `json:"states"`
	Transitions int64                `json:"transitions"`
	Traces      int64                `json:"traces"`
	Distinct    int64                `json:"distinct"`
	Nontrivial  int64                `json:"nontrivial"`
	Counters    map[string]int64     `json:"counters"`
	Samples     []any                `json:"samples"`
	Violations  []Violation          `json:"violations"`
	Capped      bool                 `json:"capped"`
	ToolError   string               `json:"tool_error,omitempty"`
	Bounds      map[string]any       `json:"bounds,omitempty"`
	NoStop      []Violation          `json:"nostop,omitempty"`     // debugging aid (VERIF_NOSTOP): all violations, never stops
	KnownSeen   map[string]Violation `json:"known_seen,omitempty"` // one example per recorded-finding signature met
}

func (w *WorkerResult) count(name string, n int64) {
	if w.Counters == nil {
		w.Counters = map[string]int64{}
	}
	w.Counters[name] += n
}

func (w *WorkerResult) sample(s any) {
	if len(w.Samples) < 3 {
		w.Samples = append(w.Samples, s)
	}
}

var noStop = os.Getenv("VERIF_NOSTOP") != ""

func (w *WorkerResult) violate(v Violation) {
	if noStop {
		w.NoStop = append(w.NoStop, v)
		return
	}
	if len(w.Violations) < 20 {
		w.Violations = append(w.Violations, v)
	}
	if f := os.Getenv("VERIF_CLAIM"); f != "" && v.Known == "" {
		os.WriteFile(f+".stop", nil, 0o644)
	}
}

// RunCtx is handed to a check's worker body.
type RunCtx struct {
	ID        string
	Tier      string
	Worker    int
	Workers   int
	Deadline  time.Time
	Seed      int64
	Res       *WorkerResult
	ClaimFile string
	local     int
}

func (c *RunCtx) mine(i int) bool { return i%c.Workers == c.Worker }

// claim hands out work-unit indices 0,1,2,... dynamically across the worker processes
// (a counter file under flock); every unit is claimed by exactly one worker.
func (c *RunCtx) claim() int {
	if c.ClaimFile != "" {
		if _, err := os.Stat(c.ClaimFile + ".stop"); err == nil {
			return 1 << 30 // another worker found a violation: stop early
		}
	}
	if c.ClaimFile == "" {
		c.local++
		for (c.local-1)%c.Workers != c.Worker {
			c.local++
		}
		return c.local - 1
	}
	f, err := os.OpenFile(c.ClaimFile, os.O_RDWR|os.O_CREATE, 0o644)
	if err != nil {
		panic(err)
	}
	defer f.Close()
	if err := syscall.Flock(int(f.Fd()), syscall.LOCK_EX); err != nil {
		panic(err)
	}
	defer syscall.Flock(int(f.Fd()), syscall.LOCK_UN)
	buf := make([]byte, 32)
	n, _ := f.ReadAt(buf, 0)
	v, _ := strconv.Atoi(strings.TrimSpace(string(buf[:n])))
	f.Truncate(0)
	f.WriteAt([]byte(strconv.Itoa(v+1)), 0)
	return v
}

func (c *RunCtx) stopped() bool {
	if c.ClaimFile == "" {
		return false
	}
	_, err := os.Stat(c.ClaimFile + ".stop")
	return err == nil
}

func (c *RunCtx) expired() bool { return time.Now().After(c.Deadline) }

// Check describes one property check.
type Check struct {
	ID         string
	Rule       string
	Assume     []string
	Run        func(c *RunCtx)
	Replay     func(raw json.RawMessage) (string, error) // returns violation message ("" = holds)
	QuickSecs  int
	ThoroSecs  int
	GateCounts []string // counters that must be non-zero (depend only on the harness)
}

var checks = map[string]*Check{}

func register(c *Check) { checks[c.ID] = c }

var verifDir = "/verif"

func main() {
	id := flag.String("id", "", "property id")
	tier := flag.String("tier", "quick", "quick|thorough")
	worker := flag.Int("worker", -1, "worker index (internal)")
	workers := flag.Int("workers", 0, "number of workers")
	replay := flag.String("replay", "", "replay file")
	deadline := flag.Int("deadline", 0, "override the internal deadline in seconds")
	free := flag.Int("free", 0, "conformance pass: run every scenario of the DAG family this many times free-running (use the -race build)")
	lit := flag.Bool("litmus", false, "validate the runtime's channel/mutex/select model against Go (exhaustive vs. free running)")
	por := flag.Int("pordebug", 0, "development aid: sleep-set statistics for the first N scenarios of a DAG family")
	flag.Parse()
	if *por > 0 {
		os.Exit(porDebug(*id, *por))
	}
	if *lit {
		os.Exit(runLitmus())
	}
	if *free > 0 {
		w, n := *worker, *workers
		if w < 0 {
			w, n = 0, 1
		}
		os.Exit(freeRunMain(*id, *free, w, n))
	}
	if d := os.Getenv("VERIF_DIR"); d != "" {
		verifDir = d
	}
	if t := os.Getenv("VERIF_TIER"); t != "" && *worker < 0 && flagNotSet("tier") {
		*tier = t
	}
	ck, ok := checks[*id]
	if !ok {
		fmt.Fprintf(os.Stderr, "unknown check %q\n", *id)
		os.Exit(2)
	}
	seed, _ := strconv.ParseInt(os.Getenv("VERIF_SEED"), 10, 64)
	if *replay != "" {
		os.Exit(doReplay(ck, *replay))
	}
	secs := ck.QuickSecs
	if *tier == "thorough" {
		secs = ck.ThoroSecs
	}
	if *deadline > 0 {
		secs = *deadline
	}
	if secs == 0 {
		secs = 120
	}
	if *worker >= 0 {
		runtime.GOMAXPROCS(1)
		ctx := &RunCtx{ID: ck.ID, Tier: *tier, Worker: *worker, Workers: *workers, Seed: seed, Res: &WorkerResult{}, ClaimFile: os.Getenv("VERIF_CLAIM")}
		ctx.Deadline = time.Now().Add(time.Duration(secs) * time.Second)
		func() {
			defer func() {
				if r := recover(); r != nil {
					ctx.Res.ToolError = fmt.Sprintf("worker panic: %v", r)
				}
			}()
			ck.Run(ctx)
		}()
		js, _ := json.Marshal(ctx.Res)
		os.Stdout.Write(js)
		return
	}
	os.Exit(parent(ck, *tier, seed, secs, *workers))
}

func flagNotSet(name string) bool {
	set := false
	flag.Visit(func(f *flag.Flag) {
		if f.Name == name {
			set = true
		}
	})
	return !set
}

func parent(ck *Check, tier string, seed int64, secs int, nw int) int {
	start := time.Now()
	if nw <= 0 {
		nw = runtime.NumCPU()
		if nw > 16 {
			nw = 16
		}
	}
	self, _ := os.Executable()
	claim := filepath.Join(filepath.Dir(self), fmt.Sprintf(".claim-%d", os.Getpid()))
	os.Remove(claim)
	defer os.Remove(claim)
	defer os.Remove(claim + ".stop")
	results := make([]*WorkerResult, nw)
	errs := make([]string, nw)
	var wg sync.WaitGroup
	for w := 0; w < nw; w++ {
		w := w
		wg.Add(1)
		go func() {
			defer wg.Done()
			cmd := exec.Command(self, "-id", ck.ID, "-tier", tier, "-worker", strconv.Itoa(w), "-workers", strconv.Itoa(nw), "-deadline", strconv.Itoa(secs))
			cmd.Env = append(os.Environ(), "GOMAXPROCS=1", "VERIF_CLAIM="+claim)
			var stderr strings.Builder
			cmd.Stderr = &stderr
			if os.Getenv("VERIF_DEBUG") != "" {
				cmd.Stderr = os.Stderr
			}
			out, err := cmd.Output()
			if err != nil {
				errs[w] = fmt.Sprintf("worker %d: %v: %s", w, err, tail(stderr.String(), 2000))
				return
			}
			r := &WorkerResult{}
			if err := json.Unmarshal(out, r); err != nil {
				errs[w] = fmt.Sprintf("worker %d: bad output: %v: %s", w, err, tail(string(out), 500))
				return
			}
			results[w] = r
		}()
	}
	wg.Wait()
	claimed := -1
	if b, err := os.ReadFile(claim); err == nil {
		claimed, _ = strconv.Atoi(strings.TrimSpace(string(b)))
	}
	total := &WorkerResult{Counters: map[string]int64{}}
	toolErr := ""
	for w, r := range results {
		if errs[w] != "" {
			toolErr += errs[w] + "\n"
			continue
		}
		total.Evaluations += r.Evaluations
		total.States += r.States
		total.Transitions += r.Transitions
		total.Traces += r.Traces
		total.Distinct += r.Distinct
		total.Nontrivial += r.Nontrivial
		for k, v := range r.Counters {
			total.Counters[k] += v
		}
		for _, s := range r.Samples {
			total.sample(s)
		}
		total.Violations = append(total.Violations, r.Violations...)
		for sig, v := range r.KnownSeen {
			if total.KnownSeen == nil {
				total.KnownSeen = map[string]Violation{}
			}
			if old, ok := total.KnownSeen[sig]; !ok || v.Weight < old.Weight {
				total.KnownSeen[sig] = v
			}
		}
		total.NoStop = append(total.NoStop, r.NoStop...)
		total.Capped = total.Capped || r.Capped
		if r.ToolError != "" {
			toolErr += fmt.Sprintf("worker %d: %s\n", w, r.ToolError)
		}
		if r.Bounds != nil {
			total.Bounds = r.Bounds
		}
	}
	if total.Capped {
		if total.Bounds == nil {
			total.Bounds = map[string]any{}
		}
		cap := map[string]any{"internal_deadline_s": secs,
			"meaning": "the deadline is a safety net: work units are handed out in a fixed order, every unit finished before the deadline was explored completely, the rest was not started (or was cut short and is not counted as covered); exhaustive is false"}
		if claimed >= 0 {
			cap["work_units_handed_out_before_the_deadline"] = claimed
		}
		total.Bounds["cap"] = cap
	}
	for _, g := range ck.GateCounts {
		if total.Counters[g] == 0 && toolErr == "" && !total.Capped && len(total.Violations) == 0 {
			toolErr += fmt.Sprintf("vacuity gate: counter %q is zero\n", g)
		}
	}
	sort.SliceStable(total.Violations, func(i, j int) bool { return total.Violations[i].Weight < total.Violations[j].Weight })

	// known findings
	known := loadKnown()
	for _, v := range total.KnownSeen {
		total.Violations = append(total.Violations, v) // listed: KNOWN-FINDING line; not listed: an ordinary violation
	}
	sort.SliceStable(total.Violations, func(i, j int) bool { return total.Violations[i].Weight < total.Violations[j].Weight })
	var real []Violation
	knownSeen := map[string]bool{}
	for _, v := range total.Violations {
		if v.Known != "" && known[ck.ID+" "+v.Known] {
			if !knownSeen[v.Known] {
				knownSeen[v.Known] = true
				fmt.Printf("KNOWN-FINDING: property=%s %s\n", ck.ID, v.Known)
			}
			continue
		}
		real = append(real, v)
	}
	if noStop {
		sort.SliceStable(total.NoStop, func(i, j int) bool { return total.NoStop[i].Weight < total.NoStop[j].Weight })
		fmt.Printf("NOSTOP: %d violations\n", len(total.NoStop))
		for i, v := range total.NoStop {
			if i < 80 {
				fmt.Println("  ", v.Msg)
			}
		}
	}
	wall := time.Since(start).Seconds()
	writeEvidence(ck, tier, seed, total, len(real), wall, toolErr)
	fmt.Printf("check %s tier=%s evaluations=%d states=%d transitions=%d distinct_outcomes=%d exhaustive=%v wall=%.1fs\n",
		ck.ID, tier, total.Evaluations, total.States, total.Transitions, total.Distinct, !total.Capped, wall)
	keys := make([]string, 0, len(total.Counters))
	for k := range total.Counters {
		keys = append(keys, k)
	}
	sort.Strings(keys)
	for _, k := range keys {
		fmt.Printf("  counter %-32s %d\n", k, total.Counters[k])
	}
	if toolErr != "" {
		fmt.Fprintf(os.Stderr, "TOOL-ERROR %s\n", toolErr)
		return 2
	}
	if len(real) > 0 {
		dir := filepath.Join(verifDir, "replays", ck.ID)
		os.MkdirAll(dir, 0o755)
		shown := 0
		seenMsg := map[string]bool{}
		for _, v := range real {
			key := v.Prop + "|" + classOf(v.Msg)
			if seenMsg[key] || shown >= 5 {
				continue
			}
			seenMsg[key] = true
			shown++
			path := filepath.Join(dir, fmt.Sprintf("%s-%d.json", tier, shown))
			js, _ := json.MarshalIndent(v, "", " ")
			os.WriteFile(path, js, 0o644)
			fmt.Printf("VIOLATION property=%s replay=%s\n  %s\n", ck.ID, path, v.Msg)
		}
		return 1
	}
	return 0
}

// classOf strips case-specific detail so that only distinct kinds of violation are listed.
func classOf(msg string) string {
	if i := strings.Index(msg, ":"); i > 0 {
		return msg[:i]
	}
	if len(msg) > 40 {
		return msg[:40]
	}
	return msg
}

func tail(s string, n int) string {
	if len(s) > n {
		return s[len(s)-n:]
	}
	return s
}

func loadKnown() map[string]bool {
	out := map[string]bool{}
	data, err := os.ReadFile(filepath.Join(verifDir, "known_findings.json"))
	if err != nil {
		return out
	}
	var kf struct {
		Known []struct {
			Property  string `json:"property"`
			Signature string `json:"signature"`
		} `json:"known"`
	}
	if json.Unmarshal(data, &kf) == nil {
		for _, k := range kf.Known {
			out[k.Property+" "+k.Signature] = true
		}
	}
	return out
}

func writeEvidence(ck *Check, tier string, seed int64, t *WorkerResult, nviol int, wall float64, toolErr string) {
	samples := t.Samples
	if len(samples) == 0 {
		samples = []any{"(no case was executed)"}
	}
	cov := map[string]any{
		"states":                        t.States,
		"transitions":                   t.Transitions,
		"traces_validated_against_impl": t.Traces,
		"evaluations":                   t.Evaluations,
		"distinct_nontrivial":           t.Distinct,
		"rule":                          ck.Rule,
		"samples":                       samples,
		"exhaustive":                    !t.Capped && toolErr == "" && nviol == 0,
		"counters":                      t.Counters,
		"workers":                       runtime.NumCPU(),
	}
	if t.Bounds != nil {
		cov["bounds"] = t.Bounds
	}
	if toolErr != "" {
		cov["tool_error"] = toolErr
	}
	ev := map[string]any{
		"property_id": ck.ID,
		"tier":        tier,
		"seed":        seed,
		"level":       "model_checking",
		"coverage":    cov,
		"assumptions": ck.Assume,
		"wall_s":      wall,
		"violations":  nviol,
	}
	js, _ := json.MarshalIndent(ev, "", " ")
	dir := filepath.Join(verifDir, "evidence")
	os.MkdirAll(dir, 0o755)
	os.WriteFile(filepath.Join(dir, ck.ID+".json"), js, 0o644)
}

func doReplay(ck *Check, path string) int {
	data, err := os.ReadFile(path)
	if err != nil {
		fmt.Fprintln(os.Stderr, err)
		return 2
	}
	var v Violation
	if err := json.Unmarshal(data, &v); err != nil {
		fmt.Fprintln(os.Stderr, err)
		return 2
	}
	if ck.Replay == nil {
		fmt.Fprintln(os.Stderr, "check has no replay")
		return 2
	}
	msg, err := ck.Replay(v.Case)
	if err != nil {
		fmt.Fprintln(os.Stderr, "TOOL-ERROR", err)
		return 2
	}
	if msg != "" {
		fmt.Printf("VIOLATION property=%s replay=%s\n  %s\n", ck.ID, path, msg)
		return 1
	}
	fmt.Println("replay: property holds on this case")
	return 0
}
