package main

import (
	"fmt"
	"sort"
	"strings"

	"verif/harness/ph"
)

var c05Pool = []string{"v", "ve", "ver", "verbose", "vex", "x", "é", "ê", "VE"} // é and ê share their first byte; VE differs from ve only in case

// partitions of the index set {0..n-1} (restricted growth strings)
func setPartitions(n int) [][][]int {
	var out [][][]int
	rg := make([]int, n)
	var rec func(i, maxb int)
	rec = func(i, maxb int) {
		if i == n {
			blocks := make([][]int, maxb+1)
			for idx, b := range rg {
				blocks[b] = append(blocks[b], idx)
			}
			out = append(out, blocks)
			return
		}
		for b := 0; b <= maxb+1; b++ {
			rg[i] = b
			m := maxb
			if b > maxb {
				m = b
			}
			rec(i+1, m)
		}
	}
	if n > 0 {
		rg[0] = 0
		rec(1, 0)
	}
	return out
}

func subsets(pool []string, size int) [][]string {
	var out [][]string
	var rec func(start int, cur []string)
	rec = func(start int, cur []string) {
		if len(cur) == size {
			out = append(out, append([]string{}, cur...))
			return
		}
		for i := start; i < len(pool); i++ {
			rec(i+1, append(cur, pool[i]))
		}
	}
	rec(0, nil)
	return out
}

type c05Def struct {
	def    *ph.Def
	names  []string
	attach bool // the queried text carries an attached value (`--text=val`)
}

// names whose beginnings read as numbers (`inf`, `infinity`, `nan`, `1e`): still option names
var c05Pool2 = []string{"info", "infile", "infinity-x", "nanny"}

func defsC05(maxSize int) []c05Def {
	var out []c05Def
	for size := 2; size <= maxSize+3; size++ {
		pool, sz := c05Pool, size
		if size > maxSize {
			pool, sz = c05Pool2, size-maxSize+1 // sizes 2..4 of the second pool
		}
		size := sz
		for _, names := range subsets(pool, size) {
			for _, part := range setPartitions(size) {
				for km := 0; km < 3; km++ { // all flags, all strings, or flags and strings alternating (an attached value does not narrow the candidates)
					if km == 2 && (size > 3 || len(part) < 2) {
						continue
					}
					var opts []ph.OptDef
					for bi, block := range part {
						kind := ph.Bool
						if km == 1 || (km == 2 && bi%2 == 1) {
							kind = ph.Str
						}
						o := ph.OptDef{Name: names[block[0]], Kind: kind, DefS: "D"}
						for _, i := range block[1:] {
							o.Aliases = append(o.Aliases, names[i])
						}
						opts = append(opts, o)
					}
					// an optional-value option and a slice with room for one more value: an abbreviation typed right behind
					// them is an option, not their value
					opts = append(opts, ph.OptDef{Name: "zopt", Kind: ph.StrOpt, DefS: "ZD"}, ph.OptDef{Name: "zlist", Kind: ph.StrS, Min: 1, Max: 2})
					for mode := 0; mode < 3; mode++ {
						for _, ro := range []bool{false, true} {
							d := &ph.Def{Mode: mode, RequireOrder: ro, Help: "help", Root: ph.CmdDef{Name: "prog", Opts: opts,
								Cmds: []*ph.CmdDef{{Name: "cmd", Opts: []ph.OptDef{{Name: "vz", Kind: ph.Bool}}},
									{Name: "w", Unset: true, Unknown: 3, Opts: []ph.OptDef{{Name: "vew", Kind: ph.Bool}, {Name: "vewy", Kind: ph.Bool}}}}}} // a wrapper as documented (UnsetOptions + Pass) with two own names sharing a prefix
							out = append(out, c05Def{d, names, km >= 1})
						}
					}
				}
			}
		}
	}
	return out
}

func c05Texts(names []string) []string {
	seen := map[string]bool{}
	var out []string
	add := func(s string) {
		if s != "" && !seen[s] {
			seen[s] = true
			out = append(out, s)
		}
	}
	for _, n := range names {
		rs := []rune(n)
		for i := 1; i <= len(rs); i++ {
			add(string(rs[:i]))
		}
	}
	for _, s := range []string{"verbosee", "vf", "b", "vez", "xyz", "e", "é1", "vz", "\xc3"} {
		add(s)
	}
	sort.Strings(out)
	return out
}

var c05Facets = ph.Facets{Err: true, ErrDetail: true, Remaining: true, Vals: true, Called: true, CalledAs: true}

func judgeC05(pc *parserCase, verbose bool) []string {
	msgs, info := judgeSpec(pc, c05Facets, verbose)
	return append(msgs, c05Extra(pc, info)...)
}

// on an ambiguity error nothing but the options given before the ambiguous token may have changed
func c05Extra(pc *parserCase, info specInfo) []string {
	if !info.inDomain || !info.ex.Err || info.ex.ErrKind != "ambiguous" || !info.o.HasErr {
		return nil
	}
	// index of the ambiguous token = last token (generators put it last)
	prefix := pc.Argv[:len(pc.Argv)-1]
	if pc.Def.Mode == 1 && !strings.HasPrefix(pc.Argv[len(pc.Argv)-1], "--") {
		return nil // a bundle applies its earlier letters before the ambiguous one
	}
	p := ph.Build(pc.Def, nil)
	o := p.Run(prefix, false)
	p.Close()
	var out []string
	for k, v := range o.Vals {
		if info.o.Vals[k] != v {
			out = append(out, fmt.Sprintf("ambiguous option: option %s changed from %s to %s although the token was rejected as ambiguous", k, v, info.o.Vals[k]))
		}
	}
	return out
}

func init() {
	parserJudges["C05"] = judgeC05
	register(&Check{
		ID:        "C05",
		QuickSecs: 900, ThoroSecs: 3000,
		Rule: "input-space exploration over definitions: all subsets of size 2-4 of the name pool {v, ve, ver, verbose, vex, x, é, ê, VE} and of the pool {info, infile, infinity-x, nanny} (names whose beginnings read as numbers) x all partitions of the subset into options (names of one block are aliases) x option kind {all bool, all string, alternating} x 3 modes x require-order on/off, " +
			"each queried with every prefix of every name plus non-matching texts, in long and short spelling, at the root, inside a command that inherits the options and adds one of its own and inside a wrapper command (UnsetOptions + Pass) with two own names sharing a prefix, alone and after a token that sets another option; " +
			"effect, CalledAs, ambiguity error text (sorted candidate list) and unknown-option error compared with the reference matcher; on ambiguity no option value may change; distinct_nontrivial = distinct in-domain cases",
		Assume: []string{"names outside the pool are not covered"},
		Run: func(c *RunCtx) {
			res := c.Res
			maxSize := 4
			if c.Tier == "thorough" {
				maxSize = 5
			}
			defs := defsC05(maxSize)
			res.Bounds = map[string]any{"definitions": len(defs), "name_pool": c05Pool}
			for {
				u := c.claim()
				if u >= len(defs) {
					break
				}
				if c.expired() {
					res.Capped = true
					break
				}
				cd := defs[u]
				res.States++
				isStr := cd.attach
				for _, text := range c05Texts(cd.names) {
					for _, dash := range []string{"--", "-"} {
						tok := dash + text
						if isStr {
							tok += "=val"
						}
						for ctx := 0; ctx < 10; ctx++ {
							var argv []string
							switch ctx {
							case 0:
								argv = []string{tok}
							case 1:
								argv = []string{"cmd", tok}
							case 3: // the same text at two levels whose name tables differ (inherited + own name)
								argv = []string{tok, "cmd", tok}
							case 4: // ... and behind a wrapper that inherits nothing
								argv = []string{tok, "w", tok}
							case 5:
								argv = []string{"w", tok}
							case 6: // right behind an optional-value option given without a value
								argv = []string{"--zopt", tok}
							case 7: // right behind a slice option that could still take a value
								argv = []string{"--zlist", "x", tok}
							case 9: // behind the help option: an ambiguous text is still rejected
								argv = []string{"--help", tok}
							case 8: // Bundling: behind a letter that no declared name starts with, in one token
								if dash != "-" || cd.def.Mode != 1 || isStr {
									continue
								}
								argv = []string{"-q" + text}
							default:
								first := "--" + cd.def.Root.Opts[len(cd.def.Root.Opts)-3].Name
								if cd.def.Root.Opts[len(cd.def.Root.Opts)-3].Kind == ph.Str {
									first += "=first"
								}
								argv = []string{first, tok}
							}
							pc := &parserCase{Check: "C05", Def: cd.def, Argv: argv}
							res.Evaluations++
							res.Traces++
							res.Transitions += int64(len(argv))
							msgs, info := judgeSpec(pc, c05Facets, false)
							msgs = append(msgs, c05Extra(pc, info)...)
							if info.inDomain {
								res.count("in_domain_cases", 1)
								switch {
								case info.ex.Err && info.ex.ErrKind == "ambiguous":
									res.count("in_domain_ambiguous", 1)
								case info.ex.Err && info.ex.ErrKind == "unknown":
									res.count("in_domain_unknown", 1)
								case !info.ex.Err:
									res.count("in_domain_resolved", 1)
									for k, as := range info.ex.CalledAs {
										_ = k
										if as != "" && as != text && strings.HasPrefix(as, text) && ctx != 2 {
											res.count("in_domain_resolved_through_a_proper_prefix", 1)
											break
										}
									}
								}
							}
							if len(msgs) > 0 {
								res.violate(Violation{Prop: "C05", Msg: fmt.Sprintf("%s  [%s options=%s argv=%q]", msgs[0], cd.def.ConfigString(), describeOpts(cd.def), argv), Case: newCase("C05", cd.def, nil, argv, false), Weight: len(cd.names)*10 + len(argv), Test: goTest(cd.def, nil, argv, msgs[0])})
							}
							if res.Evaluations%60000 == 1 {
								res.sample(map[string]any{"config": cd.def.ConfigString(), "options": describeOpts(cd.def), "argv": argv})
							}
						}
					}
				}
				if len(res.Violations) >= 3 {
					break
				}
			}
			res.Distinct = res.Counters["in_domain_cases"]
		},
		Replay:     replayParser,
		GateCounts: []string{"in_domain_cases", "in_domain_ambiguous", "in_domain_unknown", "in_domain_resolved_through_a_proper_prefix"},
	})
}

func describeOpts(d *ph.Def) string {
	var parts []string
	for _, o := range d.Root.Opts {
		s := o.Name
		if len(o.Aliases) > 0 {
			s += "|" + strings.Join(o.Aliases, "|")
		}
		parts = append(parts, s+":"+o.Kind.String())
	}
	return strings.Join(parts, ",")
}
