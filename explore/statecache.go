package explore

import (
	"fmt"
	"time"

	"github.com/DavidGamba/go-getoptions/verifrt"
)

// Unbounded exploration with visited-state pruning.  The runtime hands the chooser, at every scheduling point, a
// 128-bit key of the Mazurkiewicz trace executed so far (per thread: its operations with the identity and version of
// every object touched, plus its explicit choices).  Depth-first search over the state graph: a state is expanded
// (all enabled threads, all alternatives of explicit choices) the first time it is reached and an execution that
// reaches a visited state is cut off.  A successor is "replay the path on a fresh instance + one step", so every
// transition costs one execution.  When the search finishes without hitting a cap, every reachable state of the
// scenario (up to commuting independent operations) has been visited and every maximal execution's verdict has been
// produced by the execution that reached its states first.

type SCPoint struct {
	Thread bool
	Cands  []verifrt.Cand
	Chosen int // index into Cands (thread points) or alternative (plain points)
	N      int
}

func (p *SCPoint) choice() int {
	if p.Thread {
		return p.Cands[p.Chosen].Thread
	}
	return p.Chosen
}

// SCChooser replays a prefix and then follows the default schedule until it reaches a visited state.
type SCChooser struct {
	Prefix    []int
	Policy    int // rotation applied at every map range
	Visited   map[[2]uint64]struct{}
	ReadOnly  bool // replay only: no pruning, no marking
	Points    []SCPoint
	Pruned    bool
	Diverged  string
	NewStates int
}

func (c *SCChooser) ChooseThreadState(cands []verifrt.Cand, key [2]uint64) int {
	i := len(c.Points)
	if i < len(c.Prefix) {
		want := c.Prefix[i]
		idx := -1
		for j, cd := range cands {
			if cd.Thread == want {
				idx = j
			}
		}
		if idx < 0 {
			if c.Diverged == "" {
				c.Diverged = fmt.Sprintf("point #%d replays thread %d which is not enabled", i, want)
			}
			idx = 0
		}
		c.Points = append(c.Points, SCPoint{Thread: true, Cands: cands, Chosen: idx})
		return idx
	}
	if !c.ReadOnly {
		if _, seen := c.Visited[key]; seen {
			c.Pruned = true
			return -1
		}
		c.Visited[key] = struct{}{}
		c.NewStates++
	}
	c.Points = append(c.Points, SCPoint{Thread: true, Cands: cands, Chosen: 0})
	return 0
}

func (c *SCChooser) Choose(class, n int, what string) int {
	if class == ClassOrder {
		return c.Policy % n
	}
	i := len(c.Points)
	ch := 0
	if i < len(c.Prefix) {
		ch = c.Prefix[i]
		if ch >= n || ch < 0 {
			if c.Diverged == "" {
				c.Diverged = fmt.Sprintf("point #%d (%s) replays %d of %d", i, what, ch, n)
			}
			ch = 0
		}
	}
	c.Points = append(c.Points, SCPoint{N: n, Chosen: ch})
	return ch
}

func (c *SCChooser) Choices() []int {
	out := make([]int, len(c.Points))
	for i := range c.Points {
		out[i] = c.Points[i].choice()
	}
	return out
}

type SCStats struct {
	Execs     int64 // executions = transitions of the state graph tried
	States    int64 // distinct states visited
	Pruned    int64 // executions cut off at a visited state
	Complete  int64 // executions that ran to the end
	MaxPoints int
	Capped    bool
}

type SCExplorer struct {
	Policy    int
	Deadline  time.Time
	MaxStates int64
	Stats     SCStats
	Run       func(c *SCChooser) string
	ToolError string
	visited   map[[2]uint64]struct{}
}

func (e *SCExplorer) Explore() *Violation {
	e.visited = map[[2]uint64]struct{}{}
	return e.explore(nil)
}

func (e *SCExplorer) explore(prefix []int) *Violation {
	if e.ToolError != "" {
		return nil
	}
	if (!e.Deadline.IsZero() && time.Now().After(e.Deadline)) || (e.MaxStates > 0 && e.Stats.States >= e.MaxStates) {
		e.Stats.Capped = true
		return nil
	}
	c := &SCChooser{Prefix: prefix, Policy: e.Policy, Visited: e.visited}
	msg := e.Run(c)
	e.Stats.Execs++
	e.Stats.States += int64(c.NewStates)
	if c.Pruned {
		e.Stats.Pruned++
	} else {
		e.Stats.Complete++
	}
	if c.Diverged != "" {
		e.ToolError = "replay diverged: " + c.Diverged
		return nil
	}
	if len(c.Points) < len(prefix) {
		e.ToolError = fmt.Sprintf("replay diverged: %d points for a prefix of %d", len(c.Points), len(prefix))
		return nil
	}
	if len(c.Points) > e.Stats.MaxPoints {
		e.Stats.MaxPoints = len(c.Points)
	}
	if msg != "" {
		return &Violation{Choices: c.Choices(), Msg: msg}
	}
	choices := c.Choices()
	for i := len(prefix); i < len(c.Points); i++ {
		p := &c.Points[i]
		mk := func(alt int) []int {
			np := make([]int, i+1)
			copy(np, choices[:i])
			np[i] = alt
			return np
		}
		if !p.Thread {
			for alt := 0; alt < p.N; alt++ {
				if alt == p.Chosen {
					continue
				}
				if v := e.explore(mk(alt)); v != nil {
					return v
				}
			}
			continue
		}
		for j, cd := range p.Cands {
			if j == p.Chosen {
				continue
			}
			if v := e.explore(mk(cd.Thread)); v != nil {
				return v
			}
			if e.ToolError != "" {
				return nil
			}
		}
	}
	return nil
}
