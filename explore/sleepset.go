package explore

import (
	"fmt"
	"time"

	"github.com/DavidGamba/go-getoptions/verifrt"
)

// Unbounded exploration with sleep sets (Godefroid): every Mazurkiewicz trace of the scenario
// is executed at least once.  Two pending operations are independent iff their footprints share
// no modelled object, or they share objects but both only read them.  Harness operations all
// touch the single harness object, so enter/exit/release/cancel events are never reordered by
// the reduction and the ordinary counter oracles stay valid.

type SSPoint struct {
	Thread bool
	Cands  []verifrt.Cand
	Sleep  []verifrt.Cand // asleep when this point was reached (thread points) / in force (plain points)
	Chosen int            // index into Cands, or the alternative taken at a plain point
	N      int            // plain points: number of alternatives
}

func (p *SSPoint) choice() int {
	if p.Thread {
		return p.Cands[p.Chosen].Thread
	}
	return p.Chosen
}

// Independent reports whether two pending operations commute.
func Independent(a, b verifrt.Cand) bool {
	for _, x := range a.Objs {
		for _, y := range b.Objs {
			if x == y && !(a.Reads && b.Reads) {
				return false
			}
		}
	}
	return true
}

func filterIndependent(set []verifrt.Cand, with verifrt.Cand) []verifrt.Cand {
	var out []verifrt.Cand
	for _, s := range set {
		if s.Thread != with.Thread && Independent(s, with) {
			out = append(out, s)
		}
	}
	return out
}

// SSChooser replays a prefix, then runs the default schedule restricted to threads that are not asleep.
type SSChooser struct {
	Prefix     []int
	StartSleep []verifrt.Cand // in force right after the last prefix point has been executed
	Policy     int            // rotation applied at every map range
	Points     []SSPoint
	Pruned     bool
	Diverged   string
	sleep      []verifrt.Cand
}

func (c *SSChooser) asleep(t int) bool {
	for _, s := range c.sleep {
		if s.Thread == t {
			return true
		}
	}
	return false
}

func (c *SSChooser) ChooseThread(cands []verifrt.Cand) int {
	i := len(c.Points)
	if i < len(c.Prefix) {
		want := c.Prefix[i]
		idx := -1
		for j, cd := range cands {
			if cd.Thread == want {
				idx = j
			}
		}
		if idx < 0 {
			if c.Diverged == "" {
				c.Diverged = fmt.Sprintf("point #%d replays thread %d which is not enabled", i, want)
			}
			idx = 0
		}
		c.Points = append(c.Points, SSPoint{Thread: true, Cands: cands, Chosen: idx})
		if i == len(c.Prefix)-1 {
			c.sleep = c.StartSleep
		}
		return idx
	}
	idx := -1
	for j, cd := range cands {
		if !c.asleep(cd.Thread) {
			idx = j
			break
		}
	}
	if idx < 0 {
		c.Pruned = true
		return -1
	}
	c.Points = append(c.Points, SSPoint{Thread: true, Cands: cands, Sleep: c.sleep, Chosen: idx})
	c.sleep = filterIndependent(c.sleep, cands[idx])
	return idx
}

func (c *SSChooser) Choose(class, n int, what string) int {
	if class == ClassOrder {
		return c.Policy % n
	}
	i := len(c.Points)
	ch := 0
	if i < len(c.Prefix) {
		ch = c.Prefix[i]
		if ch >= n || ch < 0 {
			if c.Diverged == "" {
				c.Diverged = fmt.Sprintf("point #%d (%s) replays %d of %d", i, what, ch, n)
			}
			ch = 0
		}
		if i == len(c.Prefix)-1 {
			c.sleep = c.StartSleep
		}
	}
	c.Points = append(c.Points, SSPoint{N: n, Chosen: ch, Sleep: c.sleep})
	return ch
}

// Choices returns the replayable choice list of the finished execution.
func (c *SSChooser) Choices() []int {
	out := make([]int, len(c.Points))
	for i := range c.Points {
		out[i] = c.Points[i].choice()
	}
	return out
}

type SSStats struct {
	Execs     int64
	Pruned    int64 // executions cut off because every enabled thread was asleep
	NewPoints int64
	MaxPoints int
	Capped    bool
}

type SSExplorer struct {
	Policy    int
	Deadline  time.Time
	MaxExecs  int64
	NoReduce  bool // plain exhaustive DFS without sleep sets (self-check of the reduction)
	Stats     SSStats
	Run       func(c *SSChooser) string
	ToolError string
}

func (e *SSExplorer) Explore() *Violation { return e.explore(nil, nil) }

func (e *SSExplorer) explore(prefix []int, start []verifrt.Cand) *Violation {
	if e.ToolError != "" {
		return nil
	}
	if (!e.Deadline.IsZero() && time.Now().After(e.Deadline)) || (e.MaxExecs > 0 && e.Stats.Execs >= e.MaxExecs) {
		e.Stats.Capped = true
		return nil
	}
	c := &SSChooser{Prefix: prefix, StartSleep: start, Policy: e.Policy}
	msg := e.Run(c)
	e.Stats.Execs++
	if c.Pruned {
		e.Stats.Pruned++
	}
	if c.Diverged != "" {
		e.ToolError = "replay diverged: " + c.Diverged
		return nil
	}
	if len(c.Points) < len(prefix) {
		e.ToolError = fmt.Sprintf("replay diverged: %d points for a prefix of %d", len(c.Points), len(prefix))
		return nil
	}
	if len(c.Points) > e.Stats.MaxPoints {
		e.Stats.MaxPoints = len(c.Points)
	}
	e.Stats.NewPoints += int64(len(c.Points) - len(prefix))
	if msg != "" {
		return &Violation{Choices: c.Choices(), Msg: msg}
	}
	choices := c.Choices()
	for i := len(prefix); i < len(c.Points); i++ {
		p := &c.Points[i]
		mk := func(alt int) []int {
			np := make([]int, i+1)
			copy(np, choices[:i])
			np[i] = alt
			return np
		}
		if !p.Thread {
			for alt := 1; alt < p.N; alt++ {
				if v := e.explore(mk(alt), p.Sleep); v != nil {
					return v
				}
			}
			continue
		}
		explored := []verifrt.Cand{p.Cands[p.Chosen]}
		for j, cd := range p.Cands {
			if j == p.Chosen {
				continue
			}
			asleep := false
			for _, s := range p.Sleep {
				if s.Thread == cd.Thread {
					asleep = true
				}
			}
			if asleep {
				continue
			}
			var ns []verifrt.Cand
			if !e.NoReduce {
				ns = filterIndependent(append(append([]verifrt.Cand{}, p.Sleep...), explored...), cd)
			}
			if v := e.explore(mk(cd.Thread), ns); v != nil {
				return v
			}
			if e.ToolError != "" {
				return nil
			}
			explored = append(explored, cd)
		}
	}
	return nil
}
