// Package explore is the stateless bounded-deviation depth-first explorer.
//
// One execution = one run of the real code under a Chooser that replays a prefix
// of choices and then takes alternative 0 everywhere.  Every choice point with
// n >= 2 alternatives is recorded; the explorer then re-runs with each
// alternative whose cost still fits the budgets:
//
//	class sched  : every non-default alternative costs 1 unit of K
//	class order  : every non-default alternative costs 1 unit of D
//	class free   : costs nothing (environment decisions are fully enumerated)
package explore

import (
	"fmt"
	"time"
)

const (
	ClassSched = 0
	ClassOrder = 1
	ClassFree  = 2
)

type Point struct {
	Class  int
	N      int
	Chosen int
}

// Chooser replays a prefix and defaults to 0 afterwards.
type Chooser struct {
	Prefix   []int
	Points   []Point
	Diverged string
}

func (c *Chooser) Choose(class, n int, what string) int {
	i := len(c.Points)
	ch := 0
	if i < len(c.Prefix) {
		ch = c.Prefix[i]
		if ch >= n || ch < 0 {
			if c.Diverged == "" {
				c.Diverged = fmt.Sprintf("choice #%d (%s) replays %d but only %d alternatives exist", i, what, ch, n)
			}
			ch = 0
		}
	}
	c.Points = append(c.Points, Point{class, n, ch})
	return ch
}

// Choices returns the complete choice list of the finished execution.
func (c *Chooser) Choices() []int {
	out := make([]int, len(c.Points))
	for i, p := range c.Points {
		out[i] = p.Chosen
	}
	return out
}

type Budget struct {
	K int // schedule deviations
	D int // map-order deviations
}

type Stats struct {
	Execs     int64
	NewPoints int64 // choice points visited beyond replayed prefixes (nodes of the exploration tree)
	MaxPoints int
	Pruned    int64 // alternatives not taken because of the budget
	Capped    bool  // deadline or execution cap hit: not exhaustive
}

// Violation carries the failing choice sequence.
type Violation struct {
	Choices []int
	Msg     string
}

type Explorer struct {
	Budget   Budget
	Deadline time.Time
	MaxExecs int64
	Stats    Stats
	// Run executes once with the chooser; returns a non-empty message on a property violation.
	// A diverged replay must be reported by the caller as a tool error.
	Run func(c *Chooser) string
	// ToolError is set when a replay diverged.
	ToolError string
}

// Explore enumerates every execution within the budget; returns the first violation or nil.
func (e *Explorer) Explore() *Violation {
	return e.explore(nil)
}

func (e *Explorer) explore(prefix []int) *Violation {
	if e.ToolError != "" {
		return nil
	}
	if (!e.Deadline.IsZero() && time.Now().After(e.Deadline)) || (e.MaxExecs > 0 && e.Stats.Execs >= e.MaxExecs) {
		e.Stats.Capped = true
		return nil
	}
	c := &Chooser{Prefix: prefix}
	msg := e.Run(c)
	e.Stats.Execs++
	if c.Diverged != "" {
		e.ToolError = "replay diverged: " + c.Diverged
		return nil
	}
	if len(c.Points) < len(prefix) {
		e.ToolError = fmt.Sprintf("replay diverged: execution has %d choice points but the prefix has %d", len(c.Points), len(prefix))
		return nil
	}
	if len(c.Points) > e.Stats.MaxPoints {
		e.Stats.MaxPoints = len(c.Points)
	}
	e.Stats.NewPoints += int64(len(c.Points) - len(prefix))
	if msg != "" {
		return &Violation{Choices: c.Choices(), Msg: msg}
	}
	usedK, usedD := 0, 0
	for i, p := range c.Points {
		if i >= len(prefix) {
			for alt := 1; alt < p.N; alt++ {
				switch p.Class {
				case ClassSched:
					if usedK+1 > e.Budget.K {
						e.Stats.Pruned++
						continue
					}
				case ClassOrder:
					if usedD+1 > e.Budget.D {
						e.Stats.Pruned++
						continue
					}
				}
				np := make([]int, i+1)
				for j := 0; j < i; j++ {
					np[j] = c.Points[j].Chosen
				}
				np[i] = alt
				if v := e.explore(np); v != nil {
					return v
				}
				if e.ToolError != "" {
					return nil
				}
			}
		}
		if p.Chosen != 0 {
			switch p.Class {
			case ClassSched:
				usedK++
			case ClassOrder:
				usedD++
			}
		}
	}
	return nil
}
